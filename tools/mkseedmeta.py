#!/usr/bin/env python3
"""Composes /verif/seeded/<id>/meta.json from the sub-agent's own notes, my confirmation run and the
seed matrix (which quick checks fire on the change)."""
import json, os, glob, csv
S = '/verif/seeded'
matrix = {}
if os.path.exists(S + '/matrix.tsv'):
    for row in csv.DictReader(open(S + '/matrix.tsv'), delimiter='\t'):
        matrix.setdefault(row['seed'], {})[row['check']] = (row['exit'], row['violations'])
for d in sorted(glob.glob(S + '/C*-*')):
    sid = os.path.basename(d)
    am = {}
    if os.path.exists(d + '/agent_meta.json'):
        try:
            am = json.load(open(d + '/agent_meta.json'))
        except Exception:
            am = {}
    conf = json.load(open(d + '/confirm.json')) if os.path.exists(d + '/confirm.json') else {}
    m = matrix.get(sid, {})
    caught = sorted(c for c, (e, n) in m.items() if e == '1')
    silent = sorted(c for c, (e, n) in m.items() if e == '0')
    other = {c: e for c, (e, n) in m.items() if e not in ('0', '1')}
    prop = sid.split('-')[0]
    meta = {
        "id": sid,
        "property": prop,
        "author": "independent sub-agent given only the property text and a scratch worktree (round %s)" % ('2' if sid.endswith(('C', 'D')) else '1'),
        "summary": am.get("summary"),
        "needs_to_manifest": am.get("needs_to_manifest"),
        "example_failing_input": am.get("example_failing_input"),
        "files_touched": am.get("files_touched"),
        "rebased": os.path.exists(d + '/patch.original.diff'),
        "confirmed_by_me": {
            "how": "tools/confirm_seeds.sh in a scratch worktree of /repo HEAD: apply patch, run `cargo test --workspace --offline`, "
                   "run the demo as interpreter/tests/demo_seed.rs with the patch, revert the patch, run the demo again",
            "suite_exit_with_patch": conf.get("suite_exit_with_patch"),
            "demo_exit_with_patch": conf.get("demo_exit_with_patch"),
            "demo_exit_without_patch": conf.get("demo_exit_without_patch"),
        },
        "checks_run": "tools/seedmatrix.sh: every quick check against a scratch clone of /repo with the patch applied" if m else
                      "tools/seedtest.sh <patch> %s (quick): fires" % prop,
        "caught_by_quick_checks": caught if m else [prop],
        "silent_quick_checks": silent,
        "inconclusive_quick_checks": other,
    }
    json.dump(meta, open(d + '/meta.json', 'w'), indent=1, ensure_ascii=False)
print("wrote", len(glob.glob(S + '/C*-*/meta.json')))
