#!/usr/bin/env python3
"""Composes /verif/seeded/<id>/meta.json (from the sub-agent's notes, my confirmation run and the recorded
results in seeded/results.py) and prints the DESIGN.md table of §9.2."""
import json, os, glob, sys, importlib.util
S = '/verif/seeded'
spec = importlib.util.spec_from_file_location("results", S + "/results.py")
mod = importlib.util.module_from_spec(spec); spec.loader.exec_module(mod)
R = mod.R
rows = []
for d in sorted(glob.glob(S + '/C*-*')):
    sid = os.path.basename(d)
    am = {}
    if os.path.exists(d + '/agent_meta.json'):
        try:
            am = json.load(open(d + '/agent_meta.json'))
        except Exception:
            am = {}
    conf = json.load(open(d + '/confirm.json')) if os.path.exists(d + '/confirm.json') else {}
    r = R.get(sid, {})
    rnd = 5 if sid[-1] in 'IJ' else 4 if sid[-1] in 'GH' else 3 if sid[-1] in 'EF' else 2 if sid[-1] in 'CD' else 1
    meta = {
        "id": sid,
        "property": r.get("own", sid.split('-')[0]),
        "author": "independent sub-agent given only the property text%s and a scratch worktree (round %d)" % (
            "" if rnd == 1 else " plus one-sentence summaries of the %d earlier changes for that property (to avoid duplicates%s)" % (
                min(8, 2 * (rnd - 1)), "; asked for a change that needs a rare combination" if rnd == 3 else "; asked for a routine-maintenance slip (data-structure / integer-type / iterator / string-API / chrono / serde migration)" if rnd == 4 else "; asked for two cooperating sites that each look fine alone, a multi-step sequence of operations, or an input at the interaction of two features" if rnd == 5 else ""), rnd),
        "summary": am.get("summary"),
        "needs_to_manifest": am.get("needs_to_manifest"),
        "example_failing_input": am.get("example_failing_input"),
        "files_touched": am.get("files_touched"),
        "rebased_by_me": os.path.exists(d + '/patch.original.diff'),
        "confirmed_by_me": {
            "how": "tools/confirm_seeds.sh in a scratch worktree of /repo HEAD: apply patch, run `cargo test --workspace --offline`, "
                   "run the demo as interpreter/tests/demo_seed.rs with the patch, revert the patch, run the demo again",
            "suite_exit_with_patch": conf.get("suite_exit_with_patch"),
            "demo_exit_with_patch": conf.get("demo_exit_with_patch"),
            "demo_exit_without_patch": conf.get("demo_exit_without_patch"),
        },
        "what_i_ran": "python3 check.py <Cxx> quick against /repo (tools/seedtest.sh) or a scratch clone (tools/seedtest_alt.sh) with the patch applied, then reverted",
        "quick_checks_that_fire": r.get("fires", []),
        "own_check_was_strengthened": r.get("strengthened"),
        "note": r.get("note"),
    }
    json.dump(meta, open(d + '/meta.json', 'w'), indent=1, ensure_ascii=False)
    rows.append((sid, (am.get("summary") or "")[:150].replace("|", "\\|").replace("\n", " "), ", ".join(r.get("fires", [])) or "?", "yes" if r.get("strengthened") else ""))
if '--table' in sys.argv:
    print("| Seed | Change (sub-agent's summary, shortened) | Quick checks that fire | Own check strengthened |")
    print("|---|---|---|---|")
    for row in rows:
        print("| %s | %s | %s | %s |" % row)
print("wrote", len(rows), file=sys.stderr)
