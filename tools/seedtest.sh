#!/bin/bash
# usage: seedtest.sh <patch.diff> <Cxx> [tier] : apply a seeded patch to /repo, run the check, revert.
set -u
PATCH=$(realpath "$1"); PROP=$2; TIER=${3:-quick}
cd /repo || exit 9
if ! git diff --quiet; then echo "repo dirty, refusing"; exit 9; fi
if ! git apply --check "$PATCH" 2>/dev/null; then echo "PATCH-DOES-NOT-APPLY $PATCH"; exit 8; fi
git apply "$PATCH"
cd /verif && python3 check.py "$PROP" "$TIER" > /verif/work/seedtest.$PROP.$$.log 2>&1
RC=$?
git -C /repo checkout -- .
grep -E "^(VIOLATION|INCONCLUSIVE|KNOWN-FINDING|\[C)" /verif/work/seedtest.$PROP.$$.log | head -8
echo "exit=$RC  (log /verif/work/seedtest.$PROP.$$.log)"
exit $RC
