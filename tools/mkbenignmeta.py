#!/usr/bin/env python3
"""Composes /verif/benign/<id>/meta.json and prints the DESIGN.md table of §9.5."""
import json, os, glob, sys, importlib.util
S = '/verif/benign'
spec = importlib.util.spec_from_file_location("results", S + "/results.py")
mod = importlib.util.module_from_spec(spec); spec.loader.exec_module(mod)
R = mod.R
rows = []
for d in sorted(glob.glob(S + "/C*-*")):
    sid = os.path.basename(d)
    am = json.load(open(d + '/agent_meta.json')) if os.path.exists(d + '/agent_meta.json') else {}
    conf = json.load(open(d + '/confirm.json')) if os.path.exists(d + '/confirm.json') else {}
    r = R.get(sid, {})
    meta = {
        "id": sid, "kind": "benign (property-preserving) change", "focus_property": am.get("focus_property", sid.split('-')[0]),
        "author": "independent sub-agent given the texts of all 20 properties and a scratch worktree; asked for a plausible maintainer "
                  "change that visibly alters behaviour near the focus property while every statement still holds as worded",
        "summary": am.get("summary"), "behaviour_difference": am.get("behaviour_difference"),
        "why_all_properties_still_hold": am.get("why_all_properties_still_hold"), "doubts": am.get("doubts"),
        "files_touched": am.get("files_touched"),
        "confirmed_by_me": {"how": "tools/confirm_benign.sh in a scratch worktree of /repo HEAD: suite with the patch, demo (asserts the new behaviour) with and without the patch",
                            "suite_exit_with_patch": conf.get("suite_exit_with_patch"), "demo_exit_with_patch": conf.get("demo_exit_with_patch"),
                            "demo_exit_without_patch": conf.get("demo_exit_without_patch")},
        "what_i_ran": "tools/benign_matrix.sh benign/<id>: all 20 quick checks against a scratch clone of /repo with the patch applied",
        "checks_that_raised_an_alarm": r.get("alarms", []), "what_was_done": r.get("after"),
    }
    json.dump(meta, open(d + '/meta.json', 'w'), indent=1, ensure_ascii=False)
    rows.append((sid, (am.get("summary") or "")[:170].replace("|", "\\|").replace("\n", " "), ", ".join(r.get("alarms", [])) or "none"))
if '--table' in sys.argv:
    print("| Change | What it does (sub-agent's summary, shortened) | Quick checks that raised an alarm |")
    print("|---|---|---|")
    for row in rows:
        print("| %s | %s | %s |" % row)
print("wrote", len(rows), file=sys.stderr)
