#!/bin/bash
# ingest_seed.sh <Cxx> <suffix> <agent-out-dir> [checks...]: copies a sub-agent's deliverables to /verif/seeded/<Cxx>-<suffix>,
# confirms them in a scratch worktree (own worktree per id, so several may run at once) and runs the quick checks against the change.
P=$1; SFX=$2; OUT=$3; shift 3
ID=$P-$SFX; D=/verif/seeded/$ID
mkdir -p $D && cp $OUT/patch.diff $OUT/demo.rs $OUT/agent_meta.json $D/ || exit 9
CONFIRM_WT=/tmp/confirm_wt_$ID /verif/tools/confirm_seeds.sh $ID
/verif/tools/benign_matrix.sh $D ${@:-$P}
