#!/bin/bash
# Confirms every seeded change in a scratch worktree of /repo HEAD (outside /repo and /verif):
#   suite passes with the patch, demo fails with the patch, demo passes without it.
# Writes /verif/seeded/<id>/confirm.json. Usage: confirm_seeds.sh [ids...]
WT=${CONFIRM_WT:-/tmp/confirm_wt}
cd /repo && git worktree remove --force $WT 2>/dev/null
git worktree add -q --detach $WT HEAD && cp /repo/Cargo.lock $WT/
IDS="$@"; [ -z "$IDS" ] && IDS=$(ls /verif/seeded)
cd $WT
cargo test --workspace --offline --no-run >/dev/null 2>&1
for id in $IDS; do
  d=/verif/seeded/$id
  [ -f $d/patch.diff ] || continue
  git checkout -q -- . ; rm -rf interpreter/tests
  feat=""
  grep -q '"--features json\|--features json' $d/agent_meta.json 2>/dev/null && feat="--features json"
  if ! git apply --check $d/patch.diff 2>/dev/null; then
    echo "{\"id\":\"$id\",\"applies\":false}" > $d/confirm.json; echo "$id: patch does not apply"; continue
  fi
  git apply $d/patch.diff
  cargo test --workspace --offline >$d/suite.log 2>&1; suite=$?
  mkdir -p interpreter/tests; cp $d/demo.rs interpreter/tests/demo_seed.rs
  cargo test -p cel-interpreter --offline $feat --test demo_seed >$d/demo_with.log 2>&1; dwith=$?
  git checkout -q -- .
  cargo test -p cel-interpreter --offline $feat --test demo_seed >$d/demo_without.log 2>&1; dwithout=$?
  rm -rf interpreter/tests
  head=$(git -C /repo rev-parse --short HEAD)
  echo "{\"id\":\"$id\",\"applies\":true,\"repo_head\":\"$head\",\"suite_exit_with_patch\":$suite,\"demo_exit_with_patch\":$dwith,\"demo_exit_without_patch\":$dwithout,\"features\":\"$feat\"}" > $d/confirm.json
  echo "$id: suite=$suite demo_with=$dwith demo_without=$dwithout"
  tail -3 $d/suite.log > $d/suite.tail; rm -f $d/suite.log; tail -15 $d/demo_with.log > $d/demo_with.tail; rm -f $d/demo_with.log $d/demo_without.log
done
cd /repo && git worktree remove --force $WT
