#!/bin/bash
# Runs every seeded change against every check (quick tier) on a scratch clone of /repo, so that
# /repo itself stays untouched. Writes /verif/seeded/matrix.tsv (id, property, exit code per check).
# usage: seedmatrix.sh [seed ids...]
SCR=/tmp/mx_repo
rm -rf $SCR; git clone -q /repo $SCR && cp /repo/Cargo.lock $SCR/
export VERIF_REPO=$SCR
IDS="$@"; [ -z "$IDS" ] && IDS=$(ls /verif/seeded | grep '^C')
OUT=/verif/seeded/matrix.tsv
[ -f $OUT ] || echo -e "seed\tcheck\texit\tviolations" > $OUT
cd /verif
for id in $IDS; do
  d=/verif/seeded/$id
  [ -f $d/patch.diff ] || continue
  git -C $SCR checkout -q -- . ; git -C $SCR clean -fdq
  if ! git -C $SCR apply $d/patch.diff 2>/dev/null; then echo -e "$id\t-\tpatch-does-not-apply\t-" >> $OUT; continue; fi
  for p in ${CHECKS:-C01 C02 C03 C04 C05 C06 C07 C08 C09 C10 C11 C12 C13 C14 C15 C16 C17 C18 C19 C20}; do
    log=/verif/work/mx.$id.$p.log
    VERIF_EVIDENCE_DIR=/verif/work/mx_evidence python3 check.py $p quick > $log 2>&1; rc=$?
    nv=$(grep -c '^VIOLATION' $log)
    echo -e "$id\t$p\t$rc\t$nv" >> $OUT
    [ $rc -eq 0 ] && rm -f $log
  done
done
rm -rf $SCR
