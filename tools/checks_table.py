"""Table of claimed checks (input of tools/mkmanifest.py)."""

TB = ("trusted: the Python reference models in /verif/monitors/celmodel, the driver's typed codec, "
      "Python int/float/datetime, rustc/cargo; held on the executions explored, not a proof")

CHECKS = {
    "C08": {
        "technique": "runtime monitoring: reference-model oracle (Python arbitrary-precision ints) over "
                     "recorded executions of `a op b`; exhaustive boundary-pair sweep + seeded random pairs",
        "level": "every execution of an int/uint arithmetic program is compared online with exact integer "
                 "arithmetic (value, or overflow / division-by-zero class); the 61^2 / 54^2 boundary pairs "
                 "x 5 operators x 2 forms are enumerated completely, the division identity is re-checked "
                 "from observed results, cross-type operands must error",
        "note": TB, "ref": "DESIGN.md §6 C08",
    },
}

ALL = ["C%02d" % i for i in range(1, 21)]

def _c(technique, level):
    return {"technique": technique, "level": level, "note": TB, "ref": "DESIGN.md §6"}


CHECKS.update({
    "C01": _c("runtime monitoring: totality / error-shape invariant monitor over recorded compile() events on hostile "
              "generated texts, with a one-way grammar-recogniser oracle; exhaustive short token sequences; thorough tier replays the corpus under "
              "AddressSanitizer and compiles short hostile texts under Miri",
              "every compile event is checked for outcome shape (program or >=1 positioned, non-empty errors; no "
              "panic / abort / hang), position bounds, and acceptance (invalid-by-construction families must be "
              "rejected; accepted text must be accepted by an independent CEL.g4 recogniser)"),
    "C03": _c("runtime monitoring: reference-model oracle (independent Python evaluator) over recorded executions of "
              "generated well-typed programs",
              "each execution's value / error class is compared with a reference evaluator written from the stated "
              "semantics; map-ranged macros under every key order; programs outside the reference's fragment are "
              "skipped, never judged"),
    "C04": _c("runtime monitoring: round-trip oracle (tree -> text -> parsed public AST) over enumerated and random "
              "expression trees, two independent renderers",
              "the parsed AST of every rendering must equal the tree it was rendered from (&&/|| chains by operand "
              "order); all trees with <= 2/3 operators, all chains to 64, all prefix runs to 6 are enumerated"),
    "C06": _c("runtime monitoring: ordered host-call log + outcome compared with a reference evaluator with skip "
              "tracking; exhaustive operator nestings",
              "observes through call-logging host functions that no skipped operand is evaluated and no error "
              "escapes from one; depth-2 nestings of all three operators over {true,false,error} enumerated "
              "completely (depth 3 for &&/|| in thorough)"),
    "C07": _c("runtime monitoring: exact equality of the ordered host-call log with the reference log, plus a "
              "logical resolve-step counter (hook) checked against a linear bound; under-supplied calls are judged by "
              "at-most-once / source-order (sub-sequence) instead of equality",
              "every leaf / call is wrapped by a logging host function; duplicated, reordered or missing "
              "evaluations change the log; exponential re-evaluation exceeds the step bound (time-independent)"),
    "C10": _c("runtime monitoring: outcome + ordered call log of macro programs compared with Python folds with "
              "explicit early exit; exhaustive small ranges; long single-thread histories (millions of iterations) for state "
              "carried between executions",
              "all five macros over every list of length 0-4/0-6 from a 3-symbol alphabet and maps with 0-4 keys, "
              "with pure, raising, logging and nested bodies"),
})

CHECKS.update({
    "C02": _c("runtime monitoring: totality monitor (value or error; panic via catch_unwind, abort / stack overflow via "
              "process death, hang via watchdog) over generated programs on hostile contexts; exhaustive value-pair sweep "
              "under every operator (the repository's unused fuzz target made deterministic)",
              "every execution / direct Value operator call is observed for panic, abort and hang; ~150-value hostile "
              "pool squared under 12 direct operators and inside programs, every built-in on every pool value in both "
              "call styles, indexing sweep, digit runs / byte alignments under every text-consuming built-in, sequence pairs under the "
              "searching built-ins, random untyped programs of depth <= 8; thorough tier: ASan replay, release-profile build, "
              "Miri over direct operators and pre-parsed programs"),
    "C05": _c("runtime monitoring: invariant monitors on hooked state (context snapshots, Arc identity through weak "
              "handles, reference-count conservation, earlier results) over sequential histories; solo-equality oracle "
              "over recorded concurrent histories (tickets from one atomic clock); TSan + Miri in the thorough tier",
              "after every execution of a history the context, buffers, counts, earlier values and program are "
              "re-observed and the result is compared with a re-run, a fresh-context run and a solo run in a fresh "
              "thread; 2-16 threads share programs and a root context with seeded yields, every result must equal its "
              "solo result; Send + Sync is compiled as a precondition"),
    "C09": _c("runtime monitoring: coherence-law checker + exact-comparison oracle (Python int/float) over the recorded "
              "pair table; offline transitivity check over all triples",
              "all ordered pairs of a ~107-value boundary set under six relations, `in`, Value::eq / partial_cmp; "
              "trichotomy, negation, converse, transitivity, congruence, reflexivity through a shared reference, "
              "min / max over sub-multisets"),
    "C11": _c("runtime monitoring: stack-of-dictionaries model checked against lookups after every step of enumerated "
              "scope histories; lexically scoped reference evaluator for macro programs with re-read of all bindings",
              "every define / open / close history of length <= 6/8 over 3 names and 3 levels, lookups through "
              "get_variable and one-identifier programs, parent re-observed after each close; programs nesting macros "
              "whose variables shadow context variables; variable / function name sharing"),
    "C12": _c("runtime monitoring: encoder / decoder oracle (CEL-spec literal encoder in Python; expected value = the "
              "string the encoder started from) over executed one-literal programs; exhaustive escape sweep",
              "all \\x, \\OOO, \\u (sampled in quick), \\U boundaries, single-character escapes in four quotings, raw "
              "and bytes forms, invalid escapes must be compile errors; three recorded known findings (C12-F1..F3)"),
    "C13": _c("runtime monitoring: reference-model oracle (Python ints / floats) over executed literals and conversion "
              "calls; boundary sweep in every literal form + random 64-bit patterns",
              "in-range literal => exactly that number, out-of-range => compile error; int / uint / double / string / "
              "bytes conversions exact or error (never saturated / NaN-derived); bit-exact string round trips"),
    "C14": _c("runtime monitoring: dictionary-model oracle over every access path (in, contains, index, select, has) "
              "of enumerated maps and lists; additive laws from observed values",
              "all maps with <= 4 keys over a 12-key mixed alphabet queried with every key and int/uint twin (incl. "
              "wrap-around aliases) as literal and variable; all lists <= 5 with indices -2..len+1 and i64 extremes; "
              "concatenation order / size / operand integrity"),
    "C15": _c("runtime monitoring: reference-model oracle (port of Go Duration.String / exact decimal ParseDuration on "
              "Python ints) over executed duration programs with host-supplied durations; mutation grammar",
              "canonical rendering, print/parse round trip, exact + - and comparisons with overflow as error on "
              "boundary pairs and log-uniform random counts; malformed strings must be rejected"),
    "C16": _c("runtime monitoring: reference-model oracle (proleptic-Gregorian civil-from-days on Python ints, "
              "cross-checked with datetime) over executed timestamp programs",
              "all ten accessors, string round trip, instant comparisons across offsets, t+d, t-d, (t+d)-t, t1-t2 on "
              "boundary dates x times x offsets (15-minute grid in thorough) and random instants"),
    "C17": _c("runtime monitoring: shape-map oracle + commutation with serde_json (reference serialisation) over "
              "recorded to_value / add_variable conversions driven by an interpreter of the serde data model",
              "every Serializer / KeySerializer method incl. 128-bit and rejected key kinds; never a panic, converted "
              "value equals the serde shape, JSON-representable data commutes with serde_json"),
    "C18": _c("runtime monitoring: expected-document oracle + round-trip check over recorded Value::json() exports of "
              "hostile generated values",
              "arrays / objects keyed by key text (either value on collisions) / padded base64 / RFC 3339 / integer "
              "nanoseconds / null for non-finite; Err (never panic) for functions and out-of-range durations; "
              "re-import equal for JSON-native originals"),
    "C19": _c("runtime monitoring: coverage / completeness / occurrence laws over recorded references() reports and "
              "execution outcomes of generated programs in two contexts each",
              "undeclared-reference errors must name a reported reference; with every reported reference defined no "
              "such error occurs; reported variables occur in the source; no '@' names; report stable across runs"),
    "C20": _c("runtime monitoring: call-style equality over built-ins on the hostile pool, and a signature model of a "
              "typed host-function catalogue checked against the typed argument log",
              "x.f(args) vs f(x, args) for 19 built-ins x pool; arity 0-9 host functions of every extractor kind with "
              "0..arity+2 matching / mismatching arguments; overrides of built-in names"),
})
NOT_APPLICABLE = {}
