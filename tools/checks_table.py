"""Table of claimed checks (input of tools/mkmanifest.py)."""

TB = ("trusted: the Python reference models in /verif/monitors/celmodel, the driver's typed codec, "
      "Python int/float/datetime, rustc/cargo; held on the executions explored, not a proof")

CHECKS = {
    "C08": {
        "technique": "runtime monitoring: reference-model oracle (Python arbitrary-precision ints) over "
                     "recorded executions of `a op b`; exhaustive boundary-pair sweep + seeded random pairs",
        "level": "every execution of an int/uint arithmetic program is compared online with exact integer "
                 "arithmetic (value, or overflow / division-by-zero class); the 61^2 / 54^2 boundary pairs "
                 "x 5 operators x 2 forms are enumerated completely, the division identity is re-checked "
                 "from observed results, cross-type operands must error",
        "note": TB, "ref": "DESIGN.md §6 C08",
    },
}

ALL = ["C%02d" % i for i in range(1, 21)]

def _c(technique, level):
    return {"technique": technique, "level": level, "note": TB, "ref": "DESIGN.md §6"}


CHECKS.update({
    "C01": _c("runtime monitoring: totality / error-shape invariant monitor over recorded compile() events on hostile "
              "generated texts, with a one-way grammar-recogniser oracle; exhaustive short token sequences",
              "every compile event is checked for outcome shape (program or >=1 positioned, non-empty errors; no "
              "panic / abort / hang), position bounds, and acceptance (invalid-by-construction families must be "
              "rejected; accepted text must be accepted by an independent CEL.g4 recogniser)"),
    "C03": _c("runtime monitoring: reference-model oracle (independent Python evaluator) over recorded executions of "
              "generated well-typed programs",
              "each execution's value / error class is compared with a reference evaluator written from the stated "
              "semantics; map-ranged macros under every key order; programs outside the reference's fragment are "
              "skipped, never judged"),
    "C04": _c("runtime monitoring: round-trip oracle (tree -> text -> parsed public AST) over enumerated and random "
              "expression trees, two independent renderers",
              "the parsed AST of every rendering must equal the tree it was rendered from (&&/|| chains by operand "
              "order); all trees with <= 2/3 operators, all chains to 64, all prefix runs to 6 are enumerated"),
    "C06": _c("runtime monitoring: ordered host-call log + outcome compared with a reference evaluator with skip "
              "tracking; exhaustive operator nestings",
              "observes through call-logging host functions that no skipped operand is evaluated and no error "
              "escapes from one; depth-2 nestings of all three operators over {true,false,error} enumerated "
              "completely (depth 3 for &&/|| in thorough)"),
    "C07": _c("runtime monitoring: exact equality of the ordered host-call log with the reference log, plus a "
              "logical resolve-step counter (hook) checked against a linear bound",
              "every leaf / call is wrapped by a logging host function; duplicated, reordered or missing "
              "evaluations change the log; exponential re-evaluation exceeds the step bound (time-independent)"),
    "C10": _c("runtime monitoring: outcome + ordered call log of macro programs compared with Python folds with "
              "explicit early exit; exhaustive small ranges",
              "all five macros over every list of length 0-4/0-6 from a 3-symbol alphabet and maps with 0-4 keys, "
              "with pure, raising, logging and nested bodies"),
})
NOT_APPLICABLE = {p: "check not built yet in this session (work in progress; the runtime-monitoring "
                     "design for it is in DESIGN.md §6)" for p in ALL if p not in CHECKS}
