"""Table of claimed checks (input of tools/mkmanifest.py)."""

TB = ("trusted: the Python reference models in /verif/monitors/celmodel, the driver's typed codec, "
      "Python int/float/datetime, rustc/cargo; held on the executions explored, not a proof")

CHECKS = {
    "C08": {
        "technique": "runtime monitoring: reference-model oracle (Python arbitrary-precision ints) over "
                     "recorded executions of `a op b`; exhaustive boundary-pair sweep + seeded random pairs",
        "level": "every execution of an int/uint arithmetic program is compared online with exact integer "
                 "arithmetic (value, or overflow / division-by-zero class); the 61^2 / 54^2 boundary pairs "
                 "x 5 operators x 2 forms are enumerated completely, the division identity is re-checked "
                 "from observed results, cross-type operands must error",
        "note": TB, "ref": "DESIGN.md §6 C08",
    },
}

ALL = ["C%02d" % i for i in range(1, 21)]
NOT_APPLICABLE = {p: "check not built yet in this session (work in progress; the runtime-monitoring "
                     "design for it is in DESIGN.md §6)" for p in ALL if p not in CHECKS}
