#!/bin/bash
# Runs all 20 quick checks against a scratch clone of /repo with one change applied (testing aid, concurrency-safe):
#   benign_matrix.sh <dir-with-patch.diff> [Cxx ...]     prints one line per check that is not silent (BM_TIER=thorough for the thorough tier)
D=$(realpath "$1"); shift
ID=$(basename $D)
PROPS="$@"; [ -z "$PROPS" ] && PROPS="C01 C02 C03 C04 C05 C06 C07 C08 C09 C10 C11 C12 C13 C14 C15 C16 C17 C18 C19 C20"
SCR=/tmp/bm_repo_$ID
rm -rf $SCR; git clone -q /repo $SCR && cp /repo/Cargo.lock $SCR/
if ! git -C $SCR apply "$D/patch.diff" 2>/dev/null; then echo "$ID PATCH-DOES-NOT-APPLY"; rm -rf $SCR; exit 8; fi
TAG=$(python3 -c "import hashlib,sys;print('alt-'+hashlib.blake2b(sys.argv[1].encode(),digest_size=4).hexdigest())" $SCR)
cd /verif
mkdir -p /verif/work/bm
out=""
for P in $PROPS; do
  VERIF_REPO=$SCR VERIF_EVIDENCE_DIR=/verif/work/bm/ev_$ID python3 check.py $P ${BM_TIER:-quick} > /verif/work/bm/$ID.$P.log 2>&1; rc=$?
  if [ $rc -ne 0 ]; then
    out="$out $P(rc=$rc)"
    echo "$ID $P exit=$rc $(grep -c '^VIOLATION' /verif/work/bm/$ID.$P.log) violations"
    grep -E "sig=" /verif/work/bm/$ID.$P.log | sort | uniq -c | sort -rn | head -4
  else
    rm -f /verif/work/bm/$ID.$P.log
  fi
done
echo "$ID DONE alarms:${out:- none}"
rm -rf $SCR /verif/work/$TAG /verif/work/bm/ev_$ID
