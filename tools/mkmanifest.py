#!/usr/bin/env python3
"""Regenerates /verif/MANIFEST.json from the table below (kept next to the code so that the
claimed checks, their techniques and the not_applicable list stay in step with what exists)."""
import json
import os
import subprocess

HERE = os.path.dirname(os.path.dirname(os.path.abspath(__file__)))

CHECKS = {
    # id: (technique, level text, level note, design ref)
}


def load_checks():
    import importlib.util
    p = os.path.join(HERE, "tools", "checks_table.py")
    spec = importlib.util.spec_from_file_location("checks_table", p)
    m = importlib.util.module_from_spec(spec)
    spec.loader.exec_module(m)
    return m.CHECKS, m.NOT_APPLICABLE


def main():
    checks, na = load_checks()
    hook_commits = subprocess.run(
        ["git", "-C", "/repo", "log", "--format=%H", "--grep=verif-hooks"],
        stdout=subprocess.PIPE, text=True).stdout.split()
    man = {
        "version": 1,
        "setup_cmd": "python3 check.py --setup",
        "hooks": {
            "guard": "cargo feature `verif-hooks` of crate cel-interpreter (off by default)",
            "enable": "the driver crate /verif/harness depends on /repo/interpreter with features "
                      "[\"json\", \"verif-hooks\"]; every check rebuilds it from /repo's working tree "
                      "(cargo build --offline --profile mon)",
            "baseline_off_cmd": "cd /repo && cargo test --workspace --no-fail-fast --offline",
            "source_commits": hook_commits,
            "add_only": True,
        },
        "engines": [
            {"name": "celmon", "path": "harness", "serves_properties": sorted(checks),
             "kind_free_text": "Rust driver executing JSONL cases against the real library (public API + "
                               "resolve-step hook), call/ret event log, per-case catch_unwind, subprocess "
                               "supervision for aborts and hangs"},
            {"name": "monitors", "path": "monitors", "serves_properties": sorted(checks),
             "kind_free_text": "Python 3 (stdlib) generators, reference models and online/offline "
                               "oracles over the recorded events; supervisor, known findings, evidence"},
        ],
        "checks": [],
        "not_applicable": [{"property_id": k, "reason": v} for k, v in sorted(na.items())],
        "notes": "Technique family: runtime monitoring and sanitizers. Every check is an oracle observing "
                 "executions of the real code; see DESIGN.md. Exit 0 = held on everything explored, "
                 "1 = VIOLATION line(s), 2 = inconclusive (never a verdict).",
    }
    for pid in sorted(checks):
        c = checks[pid]
        entry = {
            "property_id": pid,
            "quick_cmd": f"python3 check.py {pid} quick",
            "thorough_cmd": f"python3 check.py {pid} thorough",
            "evidence_file": f"/verif/evidence/{pid}.json",
            "replay_cmd_template": f"python3 check.py {pid} --replay {{path}}",
            "engine": "celmon+monitors",
            "level_claimed": {"category": "exploration", "text": c["level"], "design_ref": c["ref"]},
            "level_note": c["note"],
            "technique": c["technique"],
        }
        man["checks"].append(entry)
    with open(os.path.join(HERE, "MANIFEST.json"), "w") as f:
        json.dump(man, f, indent=1)
        f.write("\n")
    print("wrote MANIFEST.json with", len(man["checks"]), "checks,", len(na), "not_applicable")


if __name__ == "__main__":
    main()
