#!/usr/bin/env python3
"""Quick probe: python3 tools/probe.py 'src1' 'src2' ...  (python string escapes are decoded with --py)"""
import sys, os, json
sys.path.insert(0, os.path.join(os.path.dirname(os.path.dirname(os.path.abspath(__file__))), "monitors"))
import runner
args = sys.argv[1:]
py = False
if args and args[0] == '--py':
    py = True
    args = args[1:]
srcs = [a.encode('latin-1','backslashreplace').decode('unicode_escape') if py else a for a in args]
b = runner.build_driver("mon")
d = runner.Driver(b, "/verif/work/run/probe")
out = d.run([{"id": i, "op": "exec", "src": s} for i, s in enumerate(srcs)], "probe")
for s, r in zip(srcs, out):
    print(repr(s), "=>", json.dumps(r.get("res", r.get("compile_err", r)))[:300])
