#!/bin/bash
# like seedtest.sh but on a scratch clone of /repo (leaves /repo untouched): seedtest_alt.sh <patch> <Cxx>... 
PATCH=$(realpath "$1"); shift
SCR=/tmp/st_repo_$$
git clone -q /repo $SCR && cp /repo/Cargo.lock $SCR/
if ! git -C $SCR apply "$PATCH" 2>/dev/null; then echo "PATCH-DOES-NOT-APPLY $PATCH"; rm -rf $SCR; exit 8; fi
cd /verif
for PROP in "$@"; do
  VERIF_REPO=$SCR VERIF_EVIDENCE_DIR=/verif/work/alt_evidence python3 check.py $PROP quick > /verif/work/alt.$PROP.$$.log 2>&1
  echo "$PROP exit=$? $(grep -c '^VIOLATION' /verif/work/alt.$PROP.$$.log) violations; $(grep -E '^\[C' /verif/work/alt.$PROP.$$.log | tail -1)"
  grep -E "sig=" /verif/work/alt.$PROP.$$.log | sort | uniq -c | sort -rn | head -3
done
rm -rf $SCR /verif/work/alt-*
