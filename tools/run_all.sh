#!/bin/bash
# usage: run_all.sh <quick|thorough> [seed] : runs every check, prints one summary line each
TIER=${1:-quick}; export VERIF_SEED=${2:-1}
cd /verif
for i in 01 02 03 04 05 06 07 08 09 10 11 12 13 14 15 16 17 18 19 20; do
  s=$(date +%s)
  python3 check.py C$i $TIER > /verif/work/all.C$i.$TIER.log 2>&1; rc=$?
  e=$(date +%s)
  echo "C$i $TIER seed=$VERIF_SEED exit=$rc wall=$((e-s))s $(grep -E '^\[C' /verif/work/all.C$i.$TIER.log | tail -1)"
  grep -E "^(VIOLATION|INCONCLUSIVE)" /verif/work/all.C$i.$TIER.log | head -3
done
