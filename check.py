#!/usr/bin/env python3
"""Entry point of the runtime monitors.

  python3 check.py --setup                      build the driver from /repo's working tree
  python3 check.py Cxx quick|thorough           run one property check (VERIF_SEED seeds it)
  python3 check.py Cxx --replay <file>          re-execute a recorded violating case

Exit: 0 held on everything explored (KNOWN-FINDING lines allowed), 1 violation
(`VIOLATION property=<id> replay=<path>`), 2 inconclusive (build failure, nothing observed).
"""
import os
import sys

HERE = os.path.dirname(os.path.abspath(__file__))
sys.path.insert(0, os.path.join(HERE, "monitors"))

import runner  # noqa: E402

PROPS = ["C%02d" % i for i in range(1, 21)]


def main(argv):
    if len(argv) >= 2 and argv[1] == "--setup":
        try:
            b = runner.build_driver("mon", quiet=False)
        except runner.Inconclusive as e:
            print("INCONCLUSIVE build:", e)
            return 2
        print("driver:", b)
        return 0
    if len(argv) < 3 or argv[1] not in PROPS:
        print(__doc__)
        return 2
    prop = argv[1]
    modname = "props." + prop
    if argv[2] == "--replay":
        return runner.replay(prop, modname, argv[3])
    tier = argv[2]
    if tier not in ("quick", "thorough"):
        print(__doc__)
        return 2
    seed = int(os.environ.get("VERIF_SEED", "1"))
    return runner.main_check(prop, modname, tier, seed)


if __name__ == "__main__":
    sys.exit(main(sys.argv))
