//! celmon: executes JSONL cases against the real cel-rust library and records events.
//!
//!   celmon <cases.jsonl> <events.jsonl> [--skip N]
//!
//! For every case a `{"c": id}` line is written and flushed *before* the operation runs and a
//! `{"r": id, …}` line after it returned (or panicked: `{"r": id, "panic": msg, "file": f}`).
//! A case with a `c` line but no `r` line killed the process (abort / stack overflow / signal).
mod anyser;
mod astdump;
mod codec;
mod conc;
mod hostfns;

use cel_interpreter::{Context, ExecutionError, Program, Value};
use codec::{dec, enc, enc_result};
use serde_json::{json, Value as J};
use std::cell::RefCell;
use std::io::{BufRead, BufReader, BufWriter, Write};
use std::panic::{catch_unwind, AssertUnwindSafe};

thread_local! {
    static PANIC_INFO: RefCell<Option<(String, String)>> = const { RefCell::new(None) };
}

pub fn install_panic_hook() {
    std::panic::set_hook(Box::new(|info| {
        let msg = if let Some(s) = info.payload().downcast_ref::<&str>() {
            s.to_string()
        } else if let Some(s) = info.payload().downcast_ref::<String>() {
            s.clone()
        } else {
            "<non-string panic payload>".to_string()
        };
        let file = info
            .location()
            .map(|l| l.file().rsplit('/').next().unwrap_or("").to_string())
            .unwrap_or_default();
        PANIC_INFO.with(|p| *p.borrow_mut() = Some((msg, file)));
    }));
}

/// Run `f`, turning a panic into a JSON record.
pub fn guarded<F: FnOnce() -> J>(f: F) -> J {
    PANIC_INFO.with(|p| *p.borrow_mut() = None);
    match catch_unwind(AssertUnwindSafe(f)) {
        Ok(j) => j,
        Err(_) => {
            let (msg, file) = PANIC_INFO
                .with(|p| p.borrow_mut().take())
                .unwrap_or_else(|| ("<unknown>".into(), "".into()));
            json!({"panic": msg, "file": file})
        }
    }
}

fn parse_errors_json(e: &cel_interpreter::ParseErrors) -> J {
    let errs: Vec<J> = e
        .errors
        .iter()
        .map(|pe| {
            json!({"l": pe.pos.0, "c": pe.pos.1, "msg": pe.msg, "disp": pe.to_string()})
        })
        .collect();
    json!({"errs": errs, "all": e.to_string()})
}

fn op_compile(case: &J) -> J {
    let src = case["src"].as_str().unwrap_or("");
    match Program::compile(src) {
        Ok(p) => {
            let mut out = json!({"ok": 1});
            if case["opts"]["dbg"].as_bool().unwrap_or(false) {
                out["dbg"] = json!(format!("{:?}", p));
            }
            out
        }
        Err(e) => parse_errors_json(&e),
    }
}

fn op_parse(case: &J) -> J {
    let src = case["src"].as_str().unwrap_or("");
    match cel_parser::Parser::new().parse(src) {
        Ok(ast) => json!({"ast": astdump::dump(&ast)}),
        Err(e) => parse_errors_json(&e),
    }
}

pub fn build_context<'a>(case: &J) -> Result<Context<'a>, String> {
    let opts = &case["opts"];
    let mut ctx = if opts["empty"].as_bool().unwrap_or(false) {
        Context::empty()
    } else {
        Context::default()
    };
    if !opts["nofns"].as_bool().unwrap_or(false) {
        hostfns::register(&mut ctx);
    }
    if let Some(a) = opts["overrides"].as_array() {
        for n in a {
            hostfns::register_override(&mut ctx, n.as_str().unwrap_or(""));
        }
    }
    if let Some(vars) = case["vars"].as_array() {
        for p in vars {
            let name = p[0].as_str().ok_or("var name")?;
            let v = dec(&p[1])?;
            if opts["via_add_variable"].as_bool().unwrap_or(false) {
                ctx.add_variable(name, v).map_err(|e| e.to_string())?;
            } else {
                ctx.add_variable_from_value(name, v);
            }
        }
    }
    // overrides registered *after* variables too, for the order-independence clause of C11/C20
    if let Some(a) = opts["overrides_late"].as_array() {
        for n in a {
            hostfns::register_override(&mut ctx, n.as_str().unwrap_or(""));
        }
    }
    Ok(ctx)
}

fn exec_once(p: &Program, ctx: &Context) -> J {
    hostfns::log_reset();
    cel_interpreter::verif::reset();
    let r = guarded(|| enc_result(&p.execute(ctx)));
    let steps = cel_interpreter::verif::steps();
    let log = hostfns::log_take();
    json!({"res": r, "log": log, "steps": steps})
}

fn refs_json(p: &Program) -> J {
    let r = p.references();
    let mut v: Vec<String> = r.variables().iter().map(|s| s.to_string()).collect();
    let mut f: Vec<String> = r.functions().iter().map(|s| s.to_string()).collect();
    v.sort();
    f.sort();
    json!({"vars": v, "fns": f})
}

/// One compiled program executed against several separately built contexts, in order
/// (`ctxs`: array of {vars, opts}); the program object is the same for all of them.
fn op_multictx(case: &J) -> J {
    let src = case["src"].as_str().unwrap_or("");
    let p = match Program::compile(src) {
        Ok(p) => p,
        Err(e) => return json!({"compile_err": parse_errors_json(&e)}),
    };
    let mut runs = vec![];
    if let Some(ctxs) = case["ctxs"].as_array() {
        for c in ctxs {
            match build_context(c) {
                Ok(ctx) => runs.push(exec_once(&p, &ctx)),
                Err(e) => return json!({"harness_err": e}),
            }
        }
    }
    let mut out = json!({"runs": runs});
    if case["opts"]["refs"].as_bool().unwrap_or(false) {
        out["refs"] = refs_json(&p);
    }
    out
}

fn op_exec(case: &J) -> J {
    let src = case["src"].as_str().unwrap_or("");
    let opts = &case["opts"];
    let p = match Program::compile(src) {
        Ok(p) => p,
        Err(e) => return json!({"compile_err": parse_errors_json(&e)}),
    };
    let mut ctx = match build_context(case) {
        Ok(c) => c,
        Err(e) => return json!({"harness_err": e}),
    };
    let mut out = json!({});
    let want_refs = opts["refs"].as_bool().unwrap_or(false);
    if want_refs {
        out["refs"] = refs_json(&p);
    }
    if opts["define_all"].as_bool().unwrap_or(false) {
        // C19 clause 2: define every *reported* variable and function
        let r = p.references();
        let declared: std::collections::HashSet<String> = case["vars"]
            .as_array()
            .map(|a| a.iter().filter_map(|p| p[0].as_str().map(|s| s.to_string())).collect())
            .unwrap_or_default();
        for v in r.variables() {
            if !declared.contains(v) {
                ctx.add_variable_from_value(v, Value::Int(1));
            }
        }
        for f in r.functions() {
            if !f.starts_with('_') && !f.starts_with('@') && !f.starts_with('!') && !f.starts_with('-') {
                // do not replace built-ins or catalogue functions, only fill gaps
                let probe = Program::compile(&format!("{}()", f.trim_start_matches('.')));
                let _ = probe;
                hostfns::register_override(&mut ctx, f);
            }
        }
    }
    if let Some(a) = opts["define_fns"].as_array() {
        for n in a {
            hostfns::register_override(&mut ctx, n.as_str().unwrap_or(""));
        }
    }
    let inner_vars = case["inner"].as_array();
    let run = |ctx: &Context, out: &mut J| {
        let first = exec_once(&p, ctx);
        out["res"] = first["res"].clone();
        out["log"] = first["log"].clone();
        out["steps"] = first["steps"].clone();
        if opts["twice"].as_bool().unwrap_or(false) {
            let second = exec_once(&p, ctx);
            out["res2"] = second["res"].clone();
            out["log2"] = second["log"].clone();
        }
        if opts["reread"].as_bool().unwrap_or(false) {
            // re-read every declared variable (and the names in opts.probe) after execution
            let mut after = vec![];
            if let Some(vars) = case["vars"].as_array() {
                for pv in vars {
                    let n = pv[0].as_str().unwrap_or("");
                    after.push(json!([n, enc_result(&ctx.get_variable(n))]));
                }
            }
            if let Some(vars) = case["inner"].as_array() {
                for pv in vars {
                    let n = pv[0].as_str().unwrap_or("");
                    after.push(json!([n, enc_result(&ctx.get_variable(n))]));
                }
            }
            if let Some(names) = opts["probe"].as_array() {
                for n in names {
                    let n = n.as_str().unwrap_or("");
                    after.push(json!([n, enc_result(&ctx.get_variable(n))]));
                }
            }
            out["after"] = J::Array(after);
        }
        if want_refs {
            out["refs_after"] = refs_json(&p);
        }
    };
    match inner_vars {
        Some(iv) => {
            let mut c2 = ctx.new_inner_scope();
            for pv in iv {
                match dec(&pv[1]) {
                    Ok(v) => c2.add_variable_from_value(pv[0].as_str().unwrap_or(""), v),
                    Err(e) => return json!({"harness_err": e}),
                }
            }
            run(&c2, &mut out);
            drop(c2);
            if opts["reread"].as_bool().unwrap_or(false) {
                // the root must be unchanged by anything done in / under the inner scope
                let mut root_after = vec![];
                if let Some(vars) = case["vars"].as_array() {
                    for pv in vars {
                        let n = pv[0].as_str().unwrap_or("");
                        root_after.push(json!([n, enc_result(&ctx.get_variable(n))]));
                    }
                }
                if let Some(names) = opts["probe"].as_array() {
                    for n in names {
                        let n = n.as_str().unwrap_or("");
                        root_after.push(json!([n, enc_result(&ctx.get_variable(n))]));
                    }
                }
                out["root_after"] = J::Array(root_after);
            }
        }
        None => run(&ctx, &mut out),
    }
    out
}

fn op_valueop(case: &J) -> J {
    let a = match dec(&case["a"]) {
        Ok(v) => v,
        Err(e) => return json!({"harness_err": e}),
    };
    let b = match dec(&case["b"]) {
        Ok(v) => v,
        Err(e) => return json!({"harness_err": e}),
    };
    let mut out = json!({});
    out["add"] = guarded(|| enc_result(&(a.clone() + b.clone())));
    out["sub"] = guarded(|| enc_result(&(a.clone() - b.clone())));
    out["mul"] = guarded(|| enc_result(&(a.clone() * b.clone())));
    out["div"] = guarded(|| enc_result(&(a.clone() / b.clone())));
    out["rem"] = guarded(|| enc_result(&(a.clone() % b.clone())));
    out["eq"] = guarded(|| json!(a == b));
    out["ne"] = guarded(|| json!(a != b));
    out["cmp"] = guarded(|| match a.partial_cmp(&b) {
        None => J::Null,
        Some(std::cmp::Ordering::Less) => json!(-1),
        Some(std::cmp::Ordering::Equal) => json!(0),
        Some(std::cmp::Ordering::Greater) => json!(1),
    });
    out["lt"] = guarded(|| json!(a < b));
    out["le"] = guarded(|| json!(a <= b));
    out["gt"] = guarded(|| json!(a > b));
    out["ge"] = guarded(|| json!(a >= b));
    out
}

fn op_json(case: &J) -> J {
    let v = match dec(&case["v"]) {
        Ok(v) => v,
        Err(e) => return json!({"harness_err": e}),
    };
    let mut out = json!({});
    match v.json() {
        Ok(doc) => {
            out["doc"] = json!(doc.to_string());
            // import back through the crate's own serializer
            match cel_interpreter::to_value(&doc) {
                Ok(back) => {
                    out["back"] = enc(&back);
                    out["back_eq"] = json!(back == v);
                }
                Err(e) => out["back_err"] = json!(e.to_string()),
            }
        }
        Err(e) => {
            out["jerr"] = json!(match e {
                cel_interpreter::ConvertToJsonError::Value(_) => "Value",
                cel_interpreter::ConvertToJsonError::DurationOverflow(_) => "DurationOverflow",
            });
            out["jerr_disp"] = json!(e.to_string());
        }
    }
    out
}

fn op_to_value(case: &J) -> J {
    let spec = &case["spec"];
    let any = anyser::AnySer(spec);
    let mut out = json!({});
    let conv: Result<Value, String> = if case["via"].as_str() == Some("add_variable") {
        let mut ctx = Context::default();
        match ctx.add_variable("v", &any) {
            Ok(()) => ctx.get_variable("v").map_err(|e| format!("lookup: {e}")),
            Err(e) => Err(format!("{:?}", e)),
        }
    } else {
        cel_interpreter::to_value(&any).map_err(|e| format!("{:?}", e))
    };
    match &conv {
        Ok(v) => out["val"] = enc(v),
        Err(e) => out["serr"] = json!(e),
    }
    // reference serialisation of the same data
    match serde_json::to_value(&any) {
        Ok(doc) => {
            out["sj"] = json!(doc.to_string());
            if let Ok(v) = &conv {
                match v.json() {
                    Ok(d2) => {
                        out["vj"] = json!(d2.to_string());
                        out["commute"] = json!(d2 == doc);
                    }
                    Err(e) => out["vj_err"] = json!(e.to_string()),
                }
            }
        }
        Err(e) => out["sj_err"] = json!(e.to_string()),
    }
    out
}

// ---- C11: scope histories -------------------------------------------------------------------

struct CtxOps<'j> {
    ops: &'j [J],
    pos: usize,
    names: Vec<String>,
    progs: Vec<(String, Program)>,
    out: Vec<J>,
}

fn ctx_observe(st: &mut CtxOps, ctx: &Context, depth: usize) {
    let mut look = vec![];
    for n in &st.names {
        look.push(enc_result(&ctx.get_variable(n.as_str())));
    }
    let mut pr = vec![];
    for (_, p) in &st.progs {
        hostfns::log_reset();
        let r = enc_result(&p.execute(ctx));
        pr.push(json!({"res": r, "log": hostfns::log_take()}));
    }
    st.out.push(json!({"depth": depth, "look": look, "progs": pr}));
}

fn ctx_run(st: &mut CtxOps, ctx: &mut Context, depth: usize) -> Result<(), String> {
    while st.pos < st.ops.len() {
        let op = st.ops[st.pos].clone();
        st.pos += 1;
        let kind = op[0].as_str().unwrap_or("");
        match kind {
            "def" => {
                let v = dec(&op[2])?;
                if op[3].as_str() == Some("add_variable") {
                    ctx.add_variable(op[1].as_str().unwrap_or(""), v).map_err(|e| e.to_string())?;
                } else {
                    ctx.add_variable_from_value(op[1].as_str().unwrap_or(""), v);
                }
                ctx_observe(st, ctx, depth);
            }
            "deffn" => {
                // only the root keeps functions; on a child this is a documented no-op
                hostfns::register_override(ctx, op[1].as_str().unwrap_or(""));
                ctx_observe(st, ctx, depth);
            }
            "open" => {
                let mut child = ctx.new_inner_scope();
                ctx_observe(st, &child, depth + 1);
                ctx_run(st, &mut child, depth + 1)?;
                drop(child);
                // after the child is gone the parent must look exactly as before
                ctx_observe(st, ctx, depth);
            }
            "close" => {
                if depth == 0 {
                    return Err("close at root".into());
                }
                return Ok(());
            }
            other => return Err(format!("ctxop {other}")),
        }
    }
    Ok(())
}

fn op_ctxops(case: &J) -> J {
    let ops = match case["ops"].as_array() {
        Some(a) => a,
        None => return json!({"harness_err": "ops"}),
    };
    let names: Vec<String> = case["names"]
        .as_array()
        .map(|a| a.iter().filter_map(|x| x.as_str().map(|s| s.to_string())).collect())
        .unwrap_or_default();
    let mut progs = vec![];
    if let Some(a) = case["progs"].as_array() {
        for s in a {
            let s = s.as_str().unwrap_or("");
            match Program::compile(s) {
                Ok(p) => progs.push((s.to_string(), p)),
                Err(e) => return json!({"compile_err": parse_errors_json(&e)}),
            }
        }
    }
    let mut st = CtxOps { ops, pos: 0, names, progs, out: vec![] };
    let mut root = Context::default();
    hostfns::register(&mut root);
    ctx_observe(&mut st, &root, 0);
    match ctx_run(&mut st, &mut root, 0) {
        Ok(()) => json!({"obs": st.out}),
        Err(e) => json!({"harness_err": e}),
    }
}

pub fn dispatch(case: &J) -> J {
    match case["op"].as_str().unwrap_or("") {
        "compile" => op_compile(case),
        "parse" => op_parse(case),
        "exec" => op_exec(case),
        "multictx" => op_multictx(case),
        "valueop" => op_valueop(case),
        "json" => op_json(case),
        "to_value" => op_to_value(case),
        "ctxops" => op_ctxops(case),
        "history" => conc::op_history(case),
        "conc" => conc::op_conc(case),
        "astexec" => conc::op_astexec(case),
        other => json!({"harness_err": format!("unknown op {other}")}),
    }
}

fn run(cases: String, events: String, skip: usize) {
    install_panic_hook();
    let inp = BufReader::new(std::fs::File::open(&cases).expect("open cases"));
    let mut out = BufWriter::with_capacity(
        1 << 16,
        std::fs::OpenOptions::new().create(true).append(true).open(&events).expect("open events"),
    );
    for (idx, line) in inp.lines().enumerate() {
        if idx < skip {
            continue;
        }
        let line = line.expect("read");
        if line.trim().is_empty() {
            continue;
        }
        let case: J = match serde_json::from_str(&line) {
            Ok(c) => c,
            Err(e) => {
                writeln!(out, "{}", json!({"r": idx, "harness_err": format!("bad case json: {e}")})).unwrap();
                continue;
            }
        };
        let id = case["id"].clone();
        writeln!(out, "{}", json!({"c": id, "n": idx})).unwrap();
        out.flush().unwrap();
        let mut rec = guarded(|| dispatch(&case));
        if let Some(o) = rec.as_object_mut() {
            o.insert("r".to_string(), id);
        }
        writeln!(out, "{}", rec).unwrap();
    }
    out.flush().unwrap();
}

fn main() {
    let args: Vec<String> = std::env::args().collect();
    if args.len() >= 2 && args[1] == "--send-sync-probe" {
        // compile-time evidence only; see conc.rs
        conc::send_sync_probe();
        println!("send+sync ok");
        return;
    }
    if args.len() < 3 {
        eprintln!("usage: celmon <cases.jsonl> <events.jsonl> [--skip N]");
        std::process::exit(2);
    }
    let skip = args
        .iter()
        .position(|a| a == "--skip")
        .and_then(|i| args.get(i + 1))
        .and_then(|s| s.parse().ok())
        .unwrap_or(0usize);
    let cases = args[1].clone();
    let events = args[2].clone();
    // 8 MiB: the Linux main-thread default, stated as an assumption in DESIGN.md. Sanitizer builds
    // have much larger frames; their stages raise it through CELMON_STACK_MB.
    let stack_mb = std::env::var("CELMON_STACK_MB")
        .ok()
        .and_then(|s| s.parse::<usize>().ok())
        .unwrap_or(8);
    let h = std::thread::Builder::new()
        .stack_size(stack_mb << 20)
        .spawn(move || run(cases, events, skip))
        .expect("spawn");
    if h.join().is_err() {
        std::process::exit(3);
    }
    let _ = ExecutionError::MissingArgumentOrTarget;
}
