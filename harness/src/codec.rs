//! Typed Value <-> JSON codec shared with the Python monitors.
//!
//!   {"i": 1}  {"u": 1}  {"d": <f64 bit pattern as u64>}  {"s": "…"}  {"y": "hex"}  {"b": true}
//!   {"n": 0}  {"l": [v…]}  {"m": [[k, v]…]} (iteration order)  {"dur": [secs, nanos]}
//!   {"ts": [secs, nanos, offset_secs]}  {"fn": [name, receiver|null]}
use cel_interpreter::objects::{Key, Map};
use cel_interpreter::{ExecutionError, Value};
use serde_json::{json, Value as J};
use std::collections::HashMap;
use std::sync::Arc;

pub fn hex(b: &[u8]) -> String {
    let mut s = String::with_capacity(b.len() * 2);
    for x in b {
        s.push_str(&format!("{:02x}", x));
    }
    s
}

pub fn unhex(s: &str) -> Vec<u8> {
    (0..s.len() / 2)
        .map(|i| u8::from_str_radix(&s[2 * i..2 * i + 2], 16).unwrap())
        .collect()
}

pub fn enc_key(k: &Key) -> J {
    match k {
        Key::Int(i) => json!({"i": i}),
        Key::Uint(u) => json!({"u": u}),
        Key::Bool(b) => json!({"b": b}),
        Key::String(s) => json!({"s": s.as_str()}),
    }
}

pub fn enc(v: &Value) -> J {
    match v {
        Value::Int(i) => json!({"i": i}),
        Value::UInt(u) => json!({"u": u}),
        Value::Float(f) => json!({"d": f.to_bits()}),
        Value::String(s) => json!({"s": s.as_str()}),
        Value::Bytes(b) => json!({"y": hex(b)}),
        Value::Bool(b) => json!({"b": b}),
        Value::Null => json!({"n": 0}),
        Value::List(l) => J::Object(
            [("l".to_string(), J::Array(l.iter().map(enc).collect()))]
                .into_iter()
                .collect(),
        ),
        Value::Map(m) => {
            let entries: Vec<J> = m
                .map
                .iter()
                .map(|(k, v)| J::Array(vec![enc_key(k), enc(v)]))
                .collect();
            json!({ "m": entries })
        }
        Value::Duration(d) => {
            // exact: whole seconds (floor) + non-negative subsecond nanos
            let secs = d.num_seconds();
            let sub = d.subsec_nanos();
            // chrono: num_seconds truncates toward zero, subsec_nanos has the sign of the duration
            json!({"dur": [secs, sub]})
        }
        Value::Timestamp(t) => {
            json!({"ts": [t.timestamp(), t.timestamp_subsec_nanos(), t.offset().local_minus_utc()]})
        }
        Value::Function(name, recv) => {
            json!({"fn": [name.as_str(), recv.as_ref().map(|r| enc(r))]})
        }
    }
}

pub fn dec_key(j: &J) -> Result<Key, String> {
    let o = j.as_object().ok_or("key: not an object")?;
    let (k, v) = o.iter().next().ok_or("key: empty")?;
    Ok(match k.as_str() {
        "i" => Key::Int(v.as_i64().ok_or("key i")?),
        "u" => Key::Uint(v.as_u64().ok_or("key u")?),
        "b" => Key::Bool(v.as_bool().ok_or("key b")?),
        "s" => Key::String(Arc::new(v.as_str().ok_or("key s")?.to_string())),
        other => return Err(format!("key kind {other}")),
    })
}

pub fn dec(j: &J) -> Result<Value, String> {
    let o = j.as_object().ok_or_else(|| format!("value: not an object: {j}"))?;
    let (k, v) = o.iter().next().ok_or("value: empty")?;
    Ok(match k.as_str() {
        "i" => Value::Int(v.as_i64().ok_or("i")?),
        "u" => Value::UInt(v.as_u64().ok_or("u")?),
        "d" => Value::Float(f64::from_bits(v.as_u64().ok_or("d")?)),
        "s" => Value::String(Arc::new(v.as_str().ok_or("s")?.to_string())),
        "y" => Value::Bytes(Arc::new(unhex(v.as_str().ok_or("y")?))),
        "b" => Value::Bool(v.as_bool().ok_or("b")?),
        "n" => Value::Null,
        "l" => {
            let mut out = Vec::new();
            for e in v.as_array().ok_or("l")? {
                out.push(dec(e)?);
            }
            Value::List(Arc::new(out))
        }
        "m" => {
            let mut out = HashMap::new();
            for e in v.as_array().ok_or("m")? {
                let p = e.as_array().ok_or("m entry")?;
                out.insert(dec_key(&p[0])?, dec(&p[1])?);
            }
            Value::Map(Map { map: Arc::new(out) })
        }
        "dur" => {
            let a = v.as_array().ok_or("dur")?;
            let secs = a[0].as_i64().ok_or("dur secs")?;
            let nanos = a[1].as_i64().ok_or("dur nanos")?;
            let d = chrono::Duration::try_seconds(secs)
                .and_then(|s| s.checked_add(&chrono::Duration::nanoseconds(nanos)))
                .ok_or("dur range")?;
            Value::Duration(d)
        }
        "ts" => {
            let a = v.as_array().ok_or("ts")?;
            let secs = a[0].as_i64().ok_or("ts secs")?;
            let nanos = a[1].as_u64().ok_or("ts nanos")? as u32;
            let off = a[2].as_i64().ok_or("ts off")? as i32;
            let utc = chrono::DateTime::<chrono::Utc>::from_timestamp(secs, nanos).ok_or("ts range")?;
            let fo = chrono::FixedOffset::east_opt(off).ok_or("ts offset")?;
            Value::Timestamp(utc.with_timezone(&fo))
        }
        "fn" => {
            let a = v.as_array().ok_or("fn")?;
            let name = a[0].as_str().ok_or("fn name")?.to_string();
            let recv = if a[1].is_null() { None } else { Some(Box::new(dec(&a[1])?)) };
            Value::Function(Arc::new(name), recv)
        }
        other => return Err(format!("value kind {other}")),
    })
}

pub fn enc_err(e: &ExecutionError) -> J {
    use ExecutionError::*;
    let (name, fields): (&str, Vec<J>) = match e {
        InvalidArgumentCount { expected, actual } => ("InvalidArgumentCount", vec![json!(expected), json!(actual)]),
        UnsupportedTargetType { target } => ("UnsupportedTargetType", vec![enc(target)]),
        NotSupportedAsMethod { method, target } => ("NotSupportedAsMethod", vec![json!(method), enc(target)]),
        UnsupportedKeyType(v) => ("UnsupportedKeyType", vec![enc(v)]),
        UnexpectedType { got, want } => ("UnexpectedType", vec![json!(got), json!(want)]),
        NoSuchKey(k) => ("NoSuchKey", vec![json!(k.as_str())]),
        UndeclaredReference(k) => ("UndeclaredReference", vec![json!(k.as_str())]),
        MissingArgumentOrTarget => ("MissingArgumentOrTarget", vec![]),
        ValuesNotComparable(a, b) => ("ValuesNotComparable", vec![enc(a), enc(b)]),
        UnsupportedUnaryOperator(op, a) => ("UnsupportedUnaryOperator", vec![json!(op), enc(a)]),
        UnsupportedBinaryOperator(op, a, b) => ("UnsupportedBinaryOperator", vec![json!(op), enc(a), enc(b)]),
        UnsupportedMapIndex(v) => ("UnsupportedMapIndex", vec![enc(v)]),
        UnsupportedListIndex(v) => ("UnsupportedListIndex", vec![enc(v)]),
        UnsupportedIndex(a, b) => ("UnsupportedIndex", vec![enc(a), enc(b)]),
        UnsupportedFunctionCallIdentifierType(_) => ("UnsupportedFunctionCallIdentifierType", vec![]),
        UnsupportedFieldsConstruction(_) => ("UnsupportedFieldsConstruction", vec![]),
        FunctionError { function, message } => ("FunctionError", vec![json!(function), json!(message)]),
        DivisionByZero(v) => ("DivisionByZero", vec![enc(v)]),
        RemainderByZero(v) => ("RemainderByZero", vec![enc(v)]),
        IntegerOverflow(op, a, b) => ("IntegerOverflow", vec![json!(op), enc(a), enc(b)]),
        other => {
            // ExecutionError is non_exhaustive: a variant added later is still an error outcome.
            // Its name (first identifier of the Debug rendering) is passed on so that the monitors can
            // still tell an overflow / zero-division / missing-key / undeclared error from the rest.
            let dbg = format!("{other:?}");
            let name: String = dbg.chars().take_while(|c| c.is_alphanumeric() || *c == '_').collect();
            return json!({"err": "Other", "name": name, "f": [dbg], "disp": other.to_string()});
        }
    };
    json!({"err": name, "f": fields, "disp": e.to_string()})
}

pub fn enc_result(r: &Result<Value, ExecutionError>) -> J {
    match r {
        Ok(v) => json!({"ok": enc(v)}),
        Err(e) => enc_err(e),
    }
}
