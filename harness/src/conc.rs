//! C05 workloads: sequential histories against one context, concurrent histories against a
//! shared program set + root context, and execution of pre-parsed ASTs (Miri stage).
use crate::codec::{dec, enc, enc_result};
use crate::{build_context, guarded, hostfns};
use cel_interpreter::{Context, ExecutionError, Program, Value};
use serde_json::{json, Value as J};
use std::sync::atomic::{AtomicU64, Ordering};
use std::sync::{Arc, Barrier, Weak};

pub fn send_sync_probe() {
    fn assert_send_sync<T: Send + Sync>() {}
    assert_send_sync::<Program>();
    assert_send_sync::<Context<'static>>();
    assert_send_sync::<Value>();
    assert_send_sync::<ExecutionError>();
}

/// A compiled program, or (for the Miri stage, where the ANTLR front end is prohibitively slow) a
/// pre-parsed public AST executed through the public `Context::resolve`.
pub enum Runnable {
    P(Program),
    E(cel_parser::Expression),
}

impl Runnable {
    pub fn execute(&self, ctx: &Context) -> Result<Value, ExecutionError> {
        match self {
            Runnable::P(p) => p.execute(ctx),
            Runnable::E(e) => ctx.resolve(e),
        }
    }
    fn dbg(&self) -> String {
        match self {
            Runnable::P(p) => format!("{:?}", p),
            Runnable::E(e) => format!("{:?}", e),
        }
    }
}

fn load_runnables(case: &J) -> Result<Vec<Runnable>, J> {
    let mut progs = vec![];
    if let Some(asts) = case["asts"].as_array() {
        for a in asts {
            match crate::astdump::undump(a) {
                Ok(e) => progs.push(Runnable::E(e)),
                Err(e) => return Err(json!({"harness_err": e})),
            }
        }
        return Ok(progs);
    }
    for s in case["progs"].as_array().map(|a| a.as_slice()).unwrap_or(&[]) {
        match Program::compile(s.as_str().unwrap_or("")) {
            Ok(p) => progs.push(Runnable::P(p)),
            Err(e) => return Err(json!({"compile_err": {"src": s, "all": e.to_string()}})),
        }
    }
    Ok(progs)
}

/// A weak handle on the heap buffer behind a context variable (does not change strong counts).
enum Buf {
    List(Weak<Vec<Value>>),
    Str(Weak<String>),
    Bytes(Weak<Vec<u8>>),
    Map(Weak<std::collections::HashMap<cel_interpreter::objects::Key, Value>>),
    None,
}

impl Buf {
    fn of(v: &Value) -> Buf {
        match v {
            Value::List(a) => Buf::List(Arc::downgrade(a)),
            Value::String(a) => Buf::Str(Arc::downgrade(a)),
            Value::Bytes(a) => Buf::Bytes(Arc::downgrade(a)),
            Value::Map(m) => Buf::Map(Arc::downgrade(&m.map)),
            _ => Buf::None,
        }
    }
    fn strong(&self) -> i64 {
        match self {
            Buf::List(w) => w.strong_count() as i64,
            Buf::Str(w) => w.strong_count() as i64,
            Buf::Bytes(w) => w.strong_count() as i64,
            Buf::Map(w) => w.strong_count() as i64,
            Buf::None => -1,
        }
    }
    /// Is `v` (a fresh clone obtained from the context) still backed by the same buffer?
    fn same(&self, v: &Value) -> bool {
        match (self, v) {
            (Buf::List(w), Value::List(a)) => std::ptr::eq(w.as_ptr(), Arc::as_ptr(a)),
            (Buf::Str(w), Value::String(a)) => std::ptr::eq(w.as_ptr(), Arc::as_ptr(a)),
            (Buf::Bytes(w), Value::Bytes(a)) => std::ptr::eq(w.as_ptr(), Arc::as_ptr(a)),
            (Buf::Map(w), Value::Map(m)) => std::ptr::eq(w.as_ptr(), Arc::as_ptr(&m.map)),
            (Buf::None, _) => true,
            _ => false,
        }
    }
}

fn var_names(case: &J) -> Vec<String> {
    case["vars"]
        .as_array()
        .map(|a| a.iter().filter_map(|p| p[0].as_str().map(|s| s.to_string())).collect())
        .unwrap_or_default()
}

fn snapshot(ctx: &Context, names: &[String]) -> Vec<J> {
    names.iter().map(|n| enc_result(&ctx.get_variable(n.as_str()))).collect()
}

pub fn op_history(case: &J) -> J {
    let progs = match load_runnables(case) {
        Ok(p) => p,
        Err(e) => return e,
    };
    let ctx = match build_context(case) {
        Ok(c) => c,
        Err(e) => return json!({"harness_err": e}),
    };
    let names = var_names(case);
    // weak handles + optional strong holds (the host keeping its own Arc to the buffers)
    let hold = case["opts"]["hold"].as_bool().unwrap_or(false);
    let track = !case["opts"]["notrack"].as_bool().unwrap_or(false);
    let mut held: Vec<Value> = vec![];
    let bufs: Vec<Buf> = names
        .iter()
        .map(|n| {
            let v = ctx.get_variable(n.as_str()).unwrap();
            let b = if track { Buf::of(&v) } else { Buf::None };
            if hold {
                held.push(v);
            }
            b
        })
        .collect();
    let snap0 = snapshot(&ctx, &names);
    let dbg0: Vec<String> = progs.iter().map(|p| p.dbg()).collect();
    // solo baseline: every program executed alone, in a thread of its own that has no history
    // (thread-local state dies with the thread), against a context of its own
    let mut solo: Vec<J> = vec![];
    for p in &progs {
        let r = std::thread::scope(|s| {
            s.spawn(|| {
                crate::install_panic_hook();
                match build_context(case) {
                    Ok(fresh) => {
                        hostfns::log_reset();
                        let r = guarded(|| enc_result(&p.execute(&fresh)));
                        json!({"res": r, "log": hostfns::log_take()})
                    }
                    Err(e) => json!({"harness_err": e}),
                }
            })
            .join()
            .unwrap_or_else(|_| json!({"panic": "solo thread panicked"}))
        });
        solo.push(r);
    }
    let mut earlier: Vec<(Value, J)> = vec![];
    let mut steps = vec![];
    let seq: Vec<usize> = case["seq"]
        .as_array()
        .map(|a| a.iter().filter_map(|x| x.as_u64().map(|u| u as usize)).collect())
        .unwrap_or_default();
    for (k, &pi) in seq.iter().enumerate() {
        if pi >= progs.len() {
            return json!({"harness_err": "prog index"});
        }
        let p = &progs[pi];
        let counts_before: Vec<i64> = bufs.iter().map(|b| b.strong()).collect();
        // r1: executed, encoded, dropped -> reference counts must be back where they were
        hostfns::log_reset();
        let r1 = p.execute(&ctx);
        let e1 = enc_result(&r1);
        let log1 = hostfns::log_take();
        drop(r1);
        let counts_after: Vec<i64> = bufs.iter().map(|b| b.strong()).collect();
        // r2: executed again against the same context, kept alive for the rest of the history
        hostfns::log_reset();
        let r2 = p.execute(&ctx);
        let e2 = enc_result(&r2);
        let _ = hostfns::log_take();
        // r3: a freshly built, equal context
        let e3 = match build_context(case) {
            Ok(fresh) => {
                hostfns::log_reset();
                let r = enc_result(&p.execute(&fresh));
                let _ = hostfns::log_take();
                r
            }
            Err(e) => json!({"harness_err": e}),
        };
        // observations after the step
        let snap = snapshot(&ctx, &names);
        let same_buf: Vec<bool> = names
            .iter()
            .zip(bufs.iter())
            .map(|(n, b)| ctx.get_variable(n.as_str()).map(|v| b.same(&v)).unwrap_or(false))
            .collect();
        let mut changed_earlier = vec![];
        for (i, (v, was)) in earlier.iter().enumerate() {
            let now = enc(v);
            if &now != was {
                changed_earlier.push(json!({"idx": i, "was": was, "now": now}));
            }
        }
        let dbg_same = progs.iter().zip(dbg0.iter()).all(|(p, d)| &p.dbg() == d);
        if let Ok(v) = r2 {
            let e = enc(&v);
            earlier.push((v, e));
        }
        // clones obtained through get_variable are "values previously obtained" as well
        if k % 3 == 0 {
            if let Some(n) = names.get(k % names.len().max(1)) {
                if let Ok(v) = ctx.get_variable(n.as_str()) {
                    let e = enc(&v);
                    earlier.push((v, e));
                }
            }
        }
        steps.push(json!({
            "k": k, "prog": pi, "r1": e1, "r2": e2, "r3": e3, "log": log1,
            "snap_same": snap == snap0,
            "snap": if snap == snap0 { J::Null } else { J::Array(snap) },
            "same_buf": same_buf,
            "counts_before": counts_before, "counts_after": counts_after,
            "changed_earlier": changed_earlier,
            "dbg_same": dbg_same,
        }));
    }
    drop(held);
    json!({"steps": steps, "snap0": snap0, "nvars": names.len(), "held": hold, "tracked": track, "solo": solo})
}

static TICKET: AtomicU64 = AtomicU64::new(0);

/// Canonical form of an encoded value for comparisons: map entries sorted (iteration order of a
/// map is unspecified and differs between equal maps), NaN payload / sign ignored.
fn canon(j: &J) -> J {
    match j {
        J::Object(o) => {
            let mut out = serde_json::Map::new();
            for (k, v) in o {
                if k == "m" {
                    let mut es: Vec<J> = v.as_array().map(|a| a.iter().map(canon).collect()).unwrap_or_default();
                    es.sort_by_key(|e| e.to_string());
                    out.insert(k.clone(), J::Array(es));
                } else if k == "d" {
                    let bits = v.as_u64().unwrap_or(0);
                    if f64::from_bits(bits).is_nan() {
                        out.insert(k.clone(), json!("NaN"));
                    } else {
                        out.insert(k.clone(), v.clone());
                    }
                } else {
                    out.insert(k.clone(), canon(v));
                }
            }
            J::Object(out)
        }
        J::Array(a) => J::Array(a.iter().map(canon).collect()),
        other => other.clone(),
    }
}

fn xorshift(x: &mut u64) -> u64 {
    *x ^= *x << 13;
    *x ^= *x >> 7;
    *x ^= *x << 17;
    *x
}

struct OpRec {
    thread: usize,
    seq: usize,
    prog: usize,
    call: u64,
    ret: u64,
    res: J,
    log: Vec<J>,
}

fn run_one(p: &Runnable, root: &Context, thread: usize, seq: usize) -> (J, Vec<J>) {
    // every execution happens in an inner scope of the thread's own
    let mut inner = root.new_inner_scope();
    inner.add_variable_from_value("tid", Value::Int(thread as i64));
    inner.add_variable_from_value("k", Value::Int(seq as i64));
    inner.add_variable_from_value(
        "mine",
        Value::List(Arc::new(vec![Value::Int(thread as i64), Value::Int(seq as i64)])),
    );
    hostfns::log_reset();
    let r = guarded(|| enc_result(&p.execute(&inner)));
    (r, hostfns::log_take())
}

pub fn op_conc(case: &J) -> J {
    let progs = match load_runnables(case) {
        Ok(p) => p,
        Err(e) => return e,
    };
    if progs.is_empty() {
        return json!({"harness_err": "no programs"});
    }
    let root = match build_context(case) {
        Ok(c) => c,
        Err(e) => return json!({"harness_err": e}),
    };
    let names = var_names(case);
    let bufs: Vec<Buf> = names.iter().map(|n| Buf::of(&root.get_variable(n.as_str()).unwrap())).collect();
    let snap0 = snapshot(&root, &names);
    let counts0: Vec<i64> = bufs.iter().map(|b| b.strong()).collect();
    let nthreads = case["threads"].as_u64().unwrap_or(2) as usize;
    let nops = case["ops"].as_u64().unwrap_or(10) as usize;
    let seed = case["seed"].as_u64().unwrap_or(1);
    hostfns::PERTURB.store(if case["perturb"].as_bool().unwrap_or(true) { seed | 1 } else { 0 }, Ordering::Relaxed);
    TICKET.store(0, Ordering::SeqCst);
    let barrier = Barrier::new(nthreads);
    let progs_ref = &progs;
    let root_ref = &root;
    let barrier_ref = &barrier;
    let mut recs: Vec<OpRec> = vec![];
    let panicked = std::thread::scope(|s| {
        let mut hs = vec![];
        for t in 0..nthreads {
            hs.push(s.spawn(move || {
                crate::install_panic_hook();
                let mut rng = seed.wrapping_mul(0x9E3779B97F4A7C15) ^ ((t as u64 + 1) << 32) | 1;
                let mut mine = Vec::with_capacity(nops);
                barrier_ref.wait();
                for k in 0..nops {
                    let pi = (xorshift(&mut rng) % progs_ref.len() as u64) as usize;
                    let call = TICKET.fetch_add(1, Ordering::SeqCst);
                    let (res, log) = run_one(&progs_ref[pi], root_ref, t, k);
                    let ret = TICKET.fetch_add(1, Ordering::SeqCst);
                    mine.push(OpRec { thread: t, seq: k, prog: pi, call, ret, res, log });
                }
                mine
            }));
        }
        let mut bad = 0;
        for h in hs {
            match h.join() {
                Ok(v) => recs.extend(v),
                Err(_) => bad += 1,
            }
        }
        bad
    });
    hostfns::PERTURB.store(0, Ordering::Relaxed);
    // root observations after join
    let snap1 = snapshot(&root, &names);
    let counts1: Vec<i64> = bufs.iter().map(|b| b.strong()).collect();
    let same_buf: Vec<bool> = names
        .iter()
        .zip(bufs.iter())
        .map(|(n, b)| root.get_variable(n.as_str()).map(|v| b.same(&v)).unwrap_or(false))
        .collect();
    // solo re-execution on this thread: every recorded result must equal what it yields alone
    let mut mismatches = vec![];
    let mut sample = vec![];
    for r in &recs {
        let (solo, solo_log) = run_one(&progs[r.prog], &root, r.thread, r.seq);
        if canon(&solo) != canon(&r.res)
            || canon(&J::Array(solo_log.clone())) != canon(&J::Array(r.log.clone()))
        {
            mismatches.push(json!({
                "thread": r.thread, "seq": r.seq, "prog": r.prog,
                "conc": r.res, "solo": solo, "conc_log": r.log, "solo_log": solo_log,
            }));
        }
        if sample.len() < 4 {
            sample.push(json!({"thread": r.thread, "seq": r.seq, "prog": r.prog, "call": r.call, "ret": r.ret, "res": r.res}));
        }
    }
    // interleaving statistics from the tickets
    let mut evs: Vec<(u64, i32, usize, usize)> = vec![];
    for r in &recs {
        evs.push((r.call, 1, r.thread, r.prog));
        evs.push((r.ret, -1, r.thread, r.prog));
    }
    evs.sort();
    let mut open: Vec<(usize, usize)> = vec![];
    let mut max_overlap = 0usize;
    let mut pairs = std::collections::BTreeSet::new();
    let mut sig: u64 = 0xcbf29ce484222325;
    for (_, d, t, p) in &evs {
        sig = (sig ^ ((*t as u64) << 1 | (*d > 0) as u64)).wrapping_mul(0x100000001b3);
        if *d > 0 {
            for (_, q) in &open {
                pairs.insert((*p.min(q), *p.max(q)));
            }
            open.push((*t, *p));
            max_overlap = max_overlap.max(open.len());
        } else if let Some(i) = open.iter().position(|(tt, _)| tt == t) {
            open.remove(i);
        }
    }
    json!({
        "ops": recs.len(), "threads": nthreads, "panicked_threads": panicked,
        "mismatches": mismatches,
        "snap_same": snap0 == snap1, "counts0": counts0, "counts1": counts1, "same_buf": same_buf,
        "max_overlap": max_overlap, "overlap_pairs": pairs.len(), "interleaving_sig": format!("{:016x}", sig),
        "sample": sample,
    })
}

/// Execute a pre-parsed public AST through the public `Context::resolve`.
pub fn op_astexec(case: &J) -> J {
    let expr = match crate::astdump::undump(&case["ast"]) {
        Ok(e) => e,
        Err(e) => return json!({"harness_err": e}),
    };
    let ctx = match build_context(case) {
        Ok(c) => c,
        Err(e) => return json!({"harness_err": e}),
    };
    hostfns::log_reset();
    let r = enc_result(&ctx.resolve(&expr));
    let _ = dec;
    json!({"res": r, "log": hostfns::log_take()})
}
