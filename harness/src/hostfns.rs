//! Logging host-function catalogue, registered through the public `Context::add_function`.
//!
//! Every function appends one record to a thread-local log: [name, arg…] with typed values.
use crate::codec::enc;
use cel_interpreter::extractors::{Arguments, Identifier, This};
use cel_interpreter::{Context, ExecutionError, FunctionContext, Value};
use chrono::{DateTime, Duration, FixedOffset};
use serde_json::{json, Value as J};
use std::cell::RefCell;
use std::sync::atomic::{AtomicU64, Ordering};
use std::sync::Arc;

thread_local! {
    pub static LOG: RefCell<Vec<J>> = const { RefCell::new(Vec::new()) };
}

/// Schedule perturbation for the concurrent workload: when non-zero, `t()` yields / spins.
pub static PERTURB: AtomicU64 = AtomicU64::new(0);

pub fn log_reset() {
    LOG.with(|l| l.borrow_mut().clear());
}
pub fn log_take() -> Vec<J> {
    LOG.with(|l| std::mem::take(&mut *l.borrow_mut()))
}
fn log(rec: J) {
    LOG.with(|l| l.borrow_mut().push(rec));
}

fn perturb() {
    let p = PERTURB.load(Ordering::Relaxed);
    if p != 0 {
        // cheap xorshift on a thread-local state seeded from the global
        thread_local! { static S: std::cell::Cell<u64> = const { std::cell::Cell::new(0) }; }
        S.with(|s| {
            let mut x = s.get();
            if x == 0 {
                x = p ^ (std::thread::current().id().as_u64_compat());
            }
            x ^= x << 13;
            x ^= x >> 7;
            x ^= x << 17;
            s.set(x);
            match x % 8 {
                0 | 1 => std::thread::yield_now(),
                2 => {
                    for _ in 0..(x >> 8) % 200 {
                        std::hint::spin_loop();
                    }
                }
                _ => {}
            }
        });
    }
}

trait ThreadIdCompat {
    fn as_u64_compat(&self) -> u64;
}
impl ThreadIdCompat for std::thread::ThreadId {
    fn as_u64_compat(&self) -> u64 {
        use std::hash::{Hash, Hasher};
        let mut h = std::collections::hash_map::DefaultHasher::new();
        self.hash(&mut h);
        h.finish() | 1
    }
}

type R = Result<Value, ExecutionError>;

macro_rules! hf {
    // plain positional parameters
    ($ctx:ident, $name:literal, ($($a:ident : $t:ty),*)) => {
        $ctx.add_function($name, |$($a: $t),*| -> R {
            let rec: Vec<J> = vec![json!($name) $(, enc(&Value::from($a.clone())))*];
            log(J::Array(rec.clone()));
            Ok(Value::String(Arc::new($name.to_string())))
        });
    };
}

macro_rules! hf_ftx {
    ($ctx:ident, $name:literal, ($($a:ident : $t:ty),*)) => {
        $ctx.add_function($name, |ftx: &FunctionContext $(, $a: $t)*| -> R {
            let rec: Vec<J> = vec![json!($name) $(, enc(&Value::from($a.clone())))*];
            log(J::Array(rec.clone()));
            Ok(Value::String(Arc::new(format!("{}:{}", $name, ftx.name))))
        });
    };
}

macro_rules! hf_this {
    ($ctx:ident, $name:literal, $tt:ty, ($($a:ident : $t:ty),*)) => {
        $ctx.add_function($name, |This(this): This<$tt> $(, $a: $t)*| -> R {
            let rec: Vec<J> = vec![json!($name), enc(&Value::from(this.clone())) $(, enc(&Value::from($a.clone())))*];
            log(J::Array(rec.clone()));
            Ok(Value::String(Arc::new($name.to_string())))
        });
    };
}

macro_rules! hf_thisopt {
    ($ctx:ident, $name:literal, $tt:ty) => {
        $ctx.add_function($name, |This(this): This<Option<$tt>>| -> R {
            let v = match this.clone() {
                Some(x) => Value::from(x),
                None => Value::Null,
            };
            log(json!([$name, enc(&v), this.is_some()]));
            Ok(Value::String(Arc::new($name.to_string())))
        });
    };
}

pub fn register(ctx: &mut Context) {
    // --- logging identity and failing function (C05, C06, C07, C10)
    ctx.add_function("t", |tag: Value, v: Value| -> R {
        log(json!(["t", enc(&tag)]));
        perturb();
        Ok(v)
    });
    ctx.add_function("fail", |tag: Value| -> R {
        log(json!(["fail", enc(&tag)]));
        Err(ExecutionError::function_error("fail", "requested failure"))
    });
    // variadic, receiver-aware, logs everything it sees
    ctx.add_function("va", |ftx: &FunctionContext, Arguments(args): Arguments| -> R {
        let mut rec = vec![json!("va"), ftx.this.as_ref().map(enc).unwrap_or(J::Null)];
        rec.extend(args.iter().map(enc));
        log(J::Array(rec));
        Ok(Value::List(args))
    });
    ctx.add_function("va0", |Arguments(args): Arguments| -> R {
        let mut rec = vec![json!("va0")];
        rec.extend(args.iter().map(enc));
        log(J::Array(rec));
        Ok(Value::Int(args.len() as i64))
    });

    // --- typed catalogue (C20).  Names: h<arity>_<letters>; letters i u d s y b l D T v
    hf!(ctx, "h0", ());
    hf!(ctx, "h1_i", (a: i64));
    hf!(ctx, "h1_u", (a: u64));
    hf!(ctx, "h1_d", (a: f64));
    hf!(ctx, "h1_s", (a: Arc<String>));
    hf!(ctx, "h1_y", (a: Arc<Vec<u8>>));
    hf!(ctx, "h1_b", (a: bool));
    hf!(ctx, "h1_l", (a: Arc<Vec<Value>>));
    hf!(ctx, "h1_D", (a: Duration));
    hf!(ctx, "h1_T", (a: DateTime<FixedOffset>));
    hf!(ctx, "h1_v", (a: Value));
    hf!(ctx, "h2_is", (a: i64, b: Arc<String>));
    hf!(ctx, "h2_si", (a: Arc<String>, b: i64));
    hf!(ctx, "h2_vv", (a: Value, b: Value));
    hf!(ctx, "h2_ub", (a: u64, b: bool));
    hf!(ctx, "h2_dl", (a: f64, b: Arc<Vec<Value>>));
    hf!(ctx, "h3_isb", (a: i64, b: Arc<String>, c: bool));
    hf!(ctx, "h3_vyv", (a: Value, b: Arc<Vec<u8>>, c: Value));
    hf!(ctx, "h3_DTd", (a: Duration, b: DateTime<FixedOffset>, c: f64));
    hf!(ctx, "h4_iudb", (a: i64, b: u64, c: f64, d: bool));
    hf!(ctx, "h4_svls", (a: Arc<String>, b: Value, c: Arc<Vec<Value>>, d: Arc<String>));
    hf!(ctx, "h5_iiiii", (a: i64, b: i64, c: i64, d: i64, e: i64));
    hf!(ctx, "h5_suvbi", (a: Arc<String>, b: u64, c: Value, d: bool, e: i64));
    hf!(ctx, "h6_isisis", (a: i64, b: Arc<String>, c: i64, d: Arc<String>, e: i64, f: Arc<String>));
    hf!(ctx, "h7_iudsybl", (a: i64, b: u64, c: f64, d: Arc<String>, e: Arc<Vec<u8>>, f: bool, g: Arc<Vec<Value>>));
    hf!(ctx, "h8_vvvvvvvv", (a: Value, b: Value, c: Value, d: Value, e: Value, f: Value, g: Value, h: Value));
    hf!(ctx, "h9_iiiiiiiii", (a: i64, b: i64, c: i64, d: i64, e: i64, f: i64, g: i64, h: i64, k: i64));
    hf!(ctx, "h9_sudbyvlDT", (a: Arc<String>, b: u64, c: f64, d: bool, e: Arc<Vec<u8>>, f: Value, g: Arc<Vec<Value>>, h: Duration, k: DateTime<FixedOffset>));
    // with a leading &FunctionContext
    hf_ftx!(ctx, "c0", ());
    hf_ftx!(ctx, "c1_i", (a: i64));
    hf_ftx!(ctx, "c2_sv", (a: Arc<String>, b: Value));
    hf_ftx!(ctx, "c3_uib", (a: u64, b: i64, c: bool));
    hf_ftx!(ctx, "c9_iiiiiiiii", (a: i64, b: i64, c: i64, d: i64, e: i64, f: i64, g: i64, h: i64, k: i64));
    // receiver extractors
    hf_this!(ctx, "m0_v", Value, ());
    hf_this!(ctx, "m0_s", Arc<String>, ());
    hf_this!(ctx, "m0_i", i64, ());
    hf_this!(ctx, "m1_si", Arc<String>, (a: i64));
    hf_this!(ctx, "m1_vv", Value, (a: Value));
    hf_this!(ctx, "m1_ls", Arc<Vec<Value>>, (a: Arc<String>));
    hf_this!(ctx, "m2_ius", i64, (a: u64, b: Arc<String>));
    hf_this!(ctx, "m3_vivb", Value, (a: i64, b: Value, c: bool));
    hf_this!(ctx, "m8_iiiiiiiii", i64, (a: i64, b: i64, c: i64, d: i64, e: i64, f: i64, g: i64, h: i64));
    hf_thisopt!(ctx, "o0_i", i64);
    hf_thisopt!(ctx, "o0_s", Arc<String>);
    hf_thisopt!(ctx, "o0_l", Arc<Vec<Value>>);
    // the receiver extractor in a non-first position: parameters are consumed in declaration order
    ctx.add_function("p2_iv", |a: i64, This(this): This<Value>| -> R {
        log(json!(["p2_iv", enc(&Value::Int(a)), enc(&this)]));
        Ok(Value::String(Arc::new("p2_iv".to_string())))
    });
    ctx.add_function("p3_ivi", |a: i64, This(this): This<Value>, b: i64| -> R {
        log(json!(["p3_ivi", enc(&Value::Int(a)), enc(&this), enc(&Value::Int(b))]));
        Ok(Value::String(Arc::new("p3_ivi".to_string())))
    });
    ctx.add_function("p3_ssv", |a: Arc<String>, b: Arc<String>, This(this): This<Arc<String>>| -> R {
        log(json!(["p3_ssv", enc(&Value::String(a)), enc(&Value::String(b)), enc(&Value::String(this))]));
        Ok(Value::String(Arc::new("p3_ssv".to_string())))
    });
    // This + Arguments: receiver then all arguments
    ctx.add_function("ma", |This(this): This<Value>, Arguments(args): Arguments| -> R {
        let mut rec = vec![json!("ma"), enc(&this)];
        rec.extend(args.iter().map(enc));
        log(J::Array(rec));
        Ok(Value::String(Arc::new("ma".to_string())))
    });
    // Identifier / Expression extractors
    ctx.add_function("id1", |Identifier(i): Identifier| -> R {
        log(json!(["id1", i.as_str()]));
        Ok(Value::String(i))
    });
    ctx.add_function("id2", |Identifier(i): Identifier, v: Value| -> R {
        log(json!(["id2", i.as_str(), enc(&v)]));
        Ok(v)
    });
    ctx.add_function("vid", |v: Value, Identifier(i): Identifier| -> R {
        log(json!(["vid", enc(&v), i.as_str()]));
        Ok(v)
    });
    ctx.add_function(
        "ex1",
        |ftx: &FunctionContext, e: cel_parser::Expression| -> R {
            // lazily evaluated argument: resolve it exactly once through the public API
            let v = ftx.ptx.resolve(&e)?;
            log(json!(["ex1", enc(&v)]));
            Ok(v)
        },
    );
    ctx.add_function("ex0", |_e: cel_parser::Expression| -> R {
        // never evaluates its argument
        log(json!(["ex0"]));
        Ok(Value::Null)
    });
    // Optional positional parameter kinds are not part of the public surface (FromValue for
    // Option<T> is only reachable through This<Option<T>>), covered by o0_* above.
}

/// Names a case may ask to be overridden (C20 clause c): same name as a built-in.
pub fn register_override(ctx: &mut Context, name: &str) {
    let n: &'static str = Box::leak(name.to_string().into_boxed_str());
    ctx.add_function(n, move |ftx: &FunctionContext, Arguments(args): Arguments| -> R {
        let mut rec = vec![json!("override"), json!(n), ftx.this.as_ref().map(enc).unwrap_or(J::Null)];
        rec.extend(args.iter().map(enc));
        log(J::Array(rec));
        Ok(Value::String(Arc::new(format!("override:{n}"))))
    });
}
