//! `AnySer`: a `Serialize` implementation that interprets a JSON spec and calls exactly the
//! serde `Serializer` method the spec names, so every method of the interface can be driven.
//!
//! Spec: {"k": kind, "v": payload}
use serde::ser::{
    SerializeMap, SerializeSeq, SerializeStruct, SerializeStructVariant, SerializeTuple,
    SerializeTupleStruct, SerializeTupleVariant,
};
use serde::{Serialize, Serializer};
use serde_json::Value as J;
use std::collections::HashMap;
use std::sync::Mutex;

pub struct AnySer<'a>(pub &'a J);

static INTERN: Mutex<Option<HashMap<String, &'static str>>> = Mutex::new(None);

/// serde wants `&'static str` names; intern (and leak, bounded by the name pool) them.
fn st(s: &str) -> &'static str {
    let mut g = INTERN.lock().unwrap();
    let m = g.get_or_insert_with(HashMap::new);
    if let Some(x) = m.get(s) {
        return x;
    }
    let l: &'static str = Box::leak(s.to_string().into_boxed_str());
    m.insert(s.to_string(), l);
    l
}

fn bad<E: serde::ser::Error>(m: &str) -> E {
    E::custom(format!("HARNESS-SPEC-ERROR: {m}"))
}

impl Serialize for AnySer<'_> {
    fn serialize<S: Serializer>(&self, s: S) -> Result<S::Ok, S::Error> {
        let k = self.0["k"].as_str().unwrap_or("?");
        let v = &self.0["v"];
        match k {
            "bool" => s.serialize_bool(v.as_bool().ok_or_else(|| bad("bool"))?),
            "i8" => s.serialize_i8(v.as_i64().ok_or_else(|| bad("i8"))? as i8),
            "i16" => s.serialize_i16(v.as_i64().ok_or_else(|| bad("i16"))? as i16),
            "i32" => s.serialize_i32(v.as_i64().ok_or_else(|| bad("i32"))? as i32),
            "i64" => s.serialize_i64(v.as_i64().ok_or_else(|| bad("i64"))?),
            "i128" => s.serialize_i128(v.as_str().and_then(|x| x.parse().ok()).ok_or_else(|| bad("i128"))?),
            "u8" => s.serialize_u8(v.as_u64().ok_or_else(|| bad("u8"))? as u8),
            "u16" => s.serialize_u16(v.as_u64().ok_or_else(|| bad("u16"))? as u16),
            "u32" => s.serialize_u32(v.as_u64().ok_or_else(|| bad("u32"))? as u32),
            "u64" => s.serialize_u64(v.as_u64().ok_or_else(|| bad("u64"))?),
            "u128" => s.serialize_u128(v.as_str().and_then(|x| x.parse().ok()).ok_or_else(|| bad("u128"))?),
            "f32" => s.serialize_f32(f32::from_bits(v.as_u64().ok_or_else(|| bad("f32"))? as u32)),
            "f64" => s.serialize_f64(f64::from_bits(v.as_u64().ok_or_else(|| bad("f64"))?)),
            "char" => s.serialize_char(v.as_str().and_then(|x| x.chars().next()).ok_or_else(|| bad("char"))?),
            "str" => s.serialize_str(v.as_str().ok_or_else(|| bad("str"))?),
            "collect_str" => s.collect_str(v.as_str().ok_or_else(|| bad("collect_str"))?),
            "bytes" => s.serialize_bytes(&crate::codec::unhex(v.as_str().ok_or_else(|| bad("bytes"))?)),
            "none" => s.serialize_none(),
            "some" => s.serialize_some(&AnySer(v)),
            "unit" => s.serialize_unit(),
            "unit_struct" => s.serialize_unit_struct(st(v.as_str().unwrap_or("U"))),
            "unit_variant" => {
                let a = v.as_array().ok_or_else(|| bad("unit_variant"))?;
                s.serialize_unit_variant("E", a[0].as_u64().unwrap_or(0) as u32, st(a[1].as_str().unwrap_or("V")))
            }
            "newtype_struct" => {
                let a = v.as_array().ok_or_else(|| bad("newtype_struct"))?;
                s.serialize_newtype_struct(st(a[0].as_str().unwrap_or("N")), &AnySer(&a[1]))
            }
            "newtype_variant" => {
                let a = v.as_array().ok_or_else(|| bad("newtype_variant"))?;
                s.serialize_newtype_variant("E", a[0].as_u64().unwrap_or(0) as u32, st(a[1].as_str().unwrap_or("V")), &AnySer(&a[2]))
            }
            "seq" => {
                let a = v.as_array().ok_or_else(|| bad("seq"))?;
                // exercise both the known-length and unknown-length entry
                let len = if self.0["nolen"].as_bool().unwrap_or(false) { None } else { Some(a.len()) };
                let mut q = s.serialize_seq(len)?;
                for e in a {
                    q.serialize_element(&AnySer(e))?;
                }
                q.end()
            }
            "tuple" => {
                let a = v.as_array().ok_or_else(|| bad("tuple"))?;
                let mut q = s.serialize_tuple(a.len())?;
                for e in a {
                    q.serialize_element(&AnySer(e))?;
                }
                q.end()
            }
            "tuple_struct" => {
                let a = v.as_array().ok_or_else(|| bad("tuple_struct"))?;
                let mut q = s.serialize_tuple_struct("TS", a.len())?;
                for e in a {
                    q.serialize_field(&AnySer(e))?;
                }
                q.end()
            }
            "tuple_variant" => {
                let a = v.as_array().ok_or_else(|| bad("tuple_variant"))?;
                let items = a[2].as_array().ok_or_else(|| bad("tuple_variant items"))?;
                let mut q = s.serialize_tuple_variant("E", a[0].as_u64().unwrap_or(0) as u32, st(a[1].as_str().unwrap_or("V")), items.len())?;
                for e in items {
                    q.serialize_field(&AnySer(e))?;
                }
                q.end()
            }
            "map" => {
                let a = v.as_array().ok_or_else(|| bad("map"))?;
                let len = if self.0["nolen"].as_bool().unwrap_or(false) { None } else { Some(a.len()) };
                let mut q = s.serialize_map(len)?;
                let entry_api = self.0["entry"].as_bool().unwrap_or(false);
                for e in a {
                    let p = e.as_array().ok_or_else(|| bad("map entry"))?;
                    if entry_api {
                        q.serialize_entry(&AnySer(&p[0]), &AnySer(&p[1]))?;
                    } else {
                        q.serialize_key(&AnySer(&p[0]))?;
                        q.serialize_value(&AnySer(&p[1]))?;
                    }
                }
                q.end()
            }
            "struct" => {
                let a = v.as_array().ok_or_else(|| bad("struct"))?;
                let mut q = s.serialize_struct("S", a.len())?;
                for e in a {
                    let p = e.as_array().ok_or_else(|| bad("struct field"))?;
                    q.serialize_field(st(p[0].as_str().unwrap_or("f")), &AnySer(&p[1]))?;
                }
                q.end()
            }
            "struct_variant" => {
                let a = v.as_array().ok_or_else(|| bad("struct_variant"))?;
                let fields = a[2].as_array().ok_or_else(|| bad("struct_variant fields"))?;
                let mut q = s.serialize_struct_variant("E", a[0].as_u64().unwrap_or(0) as u32, st(a[1].as_str().unwrap_or("V")), fields.len())?;
                for e in fields {
                    let p = e.as_array().ok_or_else(|| bad("sv field"))?;
                    q.serialize_field(st(p[0].as_str().unwrap_or("f")), &AnySer(&p[1]))?;
                }
                q.end()
            }
            "duration" => {
                // the crate's public wrapper
                let a = v.as_array().ok_or_else(|| bad("duration"))?;
                let d = chrono::Duration::try_seconds(a[0].as_i64().unwrap_or(0))
                    .and_then(|x| x.checked_add(&chrono::Duration::nanoseconds(a[1].as_i64().unwrap_or(0))))
                    .ok_or_else(|| bad("duration range"))?;
                cel_interpreter::Duration(d).serialize(s)
            }
            "timestamp" => {
                let a = v.as_array().ok_or_else(|| bad("timestamp"))?;
                let utc = chrono::DateTime::<chrono::Utc>::from_timestamp(a[0].as_i64().unwrap_or(0), a[1].as_u64().unwrap_or(0) as u32)
                    .ok_or_else(|| bad("timestamp range"))?;
                let fo = chrono::FixedOffset::east_opt(a[2].as_i64().unwrap_or(0) as i32).ok_or_else(|| bad("offset"))?;
                cel_interpreter::Timestamp(utc.with_timezone(&fo)).serialize(s)
            }
            "hr" => {
                // a type whose encoding depends on Serializer::is_human_readable (std::net::IpAddr, uuid, ...)
                let a = v.as_array().ok_or_else(|| bad("hr"))?;
                if s.is_human_readable() {
                    AnySer(&a[0]).serialize(s)
                } else {
                    AnySer(&a[1]).serialize(s)
                }
            }
            "json" => {
                // an arbitrary serde_json document, serialised by serde_json's own impl
                v.serialize(s)
            }
            other => Err(bad(&format!("unknown kind {other}"))),
        }
    }
}
