//! Public AST (cel_parser::ast) <-> JSON, node ids stripped.
use cel_parser::ast::*;
use cel_parser::reference::Val;
use serde_json::{json, Value as J};

pub fn val(v: &Val) -> J {
    match v {
        Val::String(s) => json!({"s": s}),
        Val::Boolean(b) => json!({"b": b}),
        Val::Int(i) => json!({"i": i}),
        Val::UInt(u) => json!({"u": u}),
        Val::Double(d) => json!({"d": d.to_bits()}),
        Val::Bytes(b) => json!({"y": crate::codec::hex(b)}),
        Val::Null => json!({"n": 0}),
    }
}

pub fn dump(e: &IdedExpr) -> J {
    match &e.expr {
        Expr::Unspecified => json!({"unspec": 0}),
        Expr::Literal(v) => json!({"lit": val(v)}),
        Expr::Ident(n) => json!({"id": n}),
        Expr::Select(s) => json!({"sel": [dump(&s.operand), s.field, s.test]}),
        Expr::Call(c) => {
            let t = c.target.as_ref().map(|t| dump(t)).unwrap_or(J::Null);
            let args: Vec<J> = c.args.iter().map(dump).collect();
            json!({"call": [c.func_name, t, args]})
        }
        Expr::List(l) => json!({"list": l.elements.iter().map(dump).collect::<Vec<_>>()}),
        Expr::Map(m) => {
            let es: Vec<J> = m
                .entries
                .iter()
                .map(|e| match &e.expr {
                    EntryExpr::MapEntry(me) => json!([dump(&me.key), dump(&me.value), me.optional]),
                    EntryExpr::StructField(f) => json!([{"field": f.field}, dump(&f.value), f.optional]),
                })
                .collect();
            json!({"map": es})
        }
        Expr::Struct(s) => {
            let es: Vec<J> = s
                .entries
                .iter()
                .map(|e| match &e.expr {
                    EntryExpr::StructField(f) => json!([f.field, dump(&f.value), f.optional]),
                    EntryExpr::MapEntry(me) => json!([{"key": dump(&me.key)}, dump(&me.value), me.optional]),
                })
                .collect();
            json!({"struct": [s.type_name, es]})
        }
        Expr::Comprehension(c) => json!({"comp": {
            "range": dump(&c.iter_range),
            "var": c.iter_var,
            "var2": c.iter_var2,
            "accu": c.accu_var,
            "init": dump(&c.accu_init),
            "cond": dump(&c.loop_cond),
            "step": dump(&c.loop_step),
            "result": dump(&c.result),
        }}),
    }
}

fn unval(j: &J) -> Result<Val, String> {
    let o = j.as_object().ok_or("val")?;
    let (k, v) = o.iter().next().ok_or("val empty")?;
    Ok(match k.as_str() {
        "s" => Val::String(v.as_str().ok_or("s")?.to_string()),
        "b" => Val::Boolean(v.as_bool().ok_or("b")?),
        "i" => Val::Int(v.as_i64().ok_or("i")?),
        "u" => Val::UInt(v.as_u64().ok_or("u")?),
        "d" => Val::Double(f64::from_bits(v.as_u64().ok_or("d")?)),
        "y" => Val::Bytes(crate::codec::unhex(v.as_str().ok_or("y")?)),
        "n" => Val::Null,
        o => return Err(format!("val kind {o}")),
    })
}

/// Rebuild a public AST from its dump (used to hand pre-parsed programs to the Miri stage,
/// where the ANTLR front end is prohibitively slow).
pub fn undump(j: &J) -> Result<IdedExpr, String> {
    let o = j.as_object().ok_or("expr")?;
    let (k, v) = o.iter().next().ok_or("expr empty")?;
    let expr = match k.as_str() {
        "unspec" => Expr::Unspecified,
        "lit" => Expr::Literal(unval(v)?),
        "id" => Expr::Ident(v.as_str().ok_or("id")?.to_string()),
        "sel" => {
            let a = v.as_array().ok_or("sel")?;
            Expr::Select(SelectExpr {
                operand: Box::new(undump(&a[0])?),
                field: a[1].as_str().ok_or("field")?.to_string(),
                test: a[2].as_bool().ok_or("test")?,
            })
        }
        "call" => {
            let a = v.as_array().ok_or("call")?;
            let target = if a[1].is_null() { None } else { Some(Box::new(undump(&a[1])?)) };
            let mut args = vec![];
            for x in a[2].as_array().ok_or("args")? {
                args.push(undump(x)?);
            }
            Expr::Call(CallExpr { func_name: a[0].as_str().ok_or("fname")?.to_string(), target, args })
        }
        "list" => {
            let mut elements = vec![];
            for x in v.as_array().ok_or("list")? {
                elements.push(undump(x)?);
            }
            Expr::List(ListExpr { elements })
        }
        "map" => {
            let mut entries = vec![];
            for x in v.as_array().ok_or("map")? {
                let a = x.as_array().ok_or("entry")?;
                entries.push(IdedEntryExpr {
                    id: 0,
                    expr: EntryExpr::MapEntry(MapEntryExpr {
                        key: undump(&a[0])?,
                        value: undump(&a[1])?,
                        optional: a[2].as_bool().unwrap_or(false),
                    }),
                });
            }
            Expr::Map(MapExpr { entries })
        }
        "struct" => {
            let a = v.as_array().ok_or("struct")?;
            let mut entries = vec![];
            for x in a[1].as_array().ok_or("fields")? {
                let f = x.as_array().ok_or("field")?;
                entries.push(IdedEntryExpr {
                    id: 0,
                    expr: EntryExpr::StructField(StructFieldExpr {
                        field: f[0].as_str().ok_or("fname")?.to_string(),
                        value: undump(&f[1])?,
                        optional: f[2].as_bool().unwrap_or(false),
                    }),
                });
            }
            Expr::Struct(StructExpr { type_name: a[0].as_str().ok_or("tname")?.to_string(), entries })
        }
        "comp" => {
            let g = |n: &str| -> Result<Box<IdedExpr>, String> { Ok(Box::new(undump(&v[n])?)) };
            Expr::Comprehension(ComprehensionExpr {
                iter_range: g("range")?,
                iter_var: v["var"].as_str().ok_or("var")?.to_string(),
                iter_var2: v["var2"].as_str().map(|s| s.to_string()),
                accu_var: v["accu"].as_str().ok_or("accu")?.to_string(),
                accu_init: g("init")?,
                loop_cond: g("cond")?,
                loop_step: g("step")?,
                result: g("result")?,
            })
        }
        o => return Err(format!("expr kind {o}")),
    };
    Ok(IdedExpr { id: 0, expr })
}
