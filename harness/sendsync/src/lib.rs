//! If this crate stops compiling, a program / context / value can no longer be shared by
//! reference among threads: the static half of property C05.
use cel_interpreter::{Context, ExecutionError, Program, Value};

fn assert_send_sync<T: Send + Sync>() {}

pub fn probe() {
    assert_send_sync::<Program>();
    assert_send_sync::<Context<'static>>();
    assert_send_sync::<Value>();
    assert_send_sync::<ExecutionError>();
    // a root context and a program set shared by reference with scoped threads
    let ctx = Context::default();
    let progs = vec![Program::compile("1 + 1").unwrap()];
    std::thread::scope(|s| {
        for _ in 0..2 {
            s.spawn(|| {
                let inner = ctx.new_inner_scope();
                let _ = progs[0].execute(&inner);
            });
        }
    });
}
