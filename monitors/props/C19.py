"""C19 — reported references cover every name a program can look up."""
from celmodel.values import I, S, L, M, B, NULL, top_outcome, is_crash
from celmodel.expr import render_min, render_full, count_ops
from celmodel.gen import UntypedGen
from .common import exec_case, rng_for, crash_sig, chunks, fmt_outcome

RULE = ("grammar-generated programs (depth <= 7) with random identifier and function names (including names equal to "
        "built-ins and leading-dot forms) in every syntactic position - operands, receivers, arguments, indices, map "
        "keys and values, list elements, struct field values, select chains, macro ranges and bodies (with shadowing "
        "iteration variables), has() arguments - each executed against (a) contexts defining a random subset of its "
        "names and (b) a context defining every *reported* variable and function; oracle: undeclared-reference errors "
        "must name a reported reference, (b) never fails with an undeclared reference, every reported variable is an "
        "identifier of the source, nothing starting with '@' is reported, and the report is identical before / after "
        "execution and across contexts; non-trivial = program with >= 2 distinct names; distinct = distinct source")
ASSUMPTIONS = ["variables are bound to an int and functions to a variadic host function in context (b)"]

VARS = ["a", "b", "c", "x", "y", "m", "lst", "req", "size", "v_1", "_u", "Foo", "has_it", "inn",
        # names that differ only in case, by a prefix / suffix, or from a function name by case: a report that
        # normalises, sorts or de-duplicates names must keep them apart
        "A", "X", "foo", "FOO", "Size", "xx", "x_", "_x", "a1", "A1", "lsT", "Req"]
FNS = ["f", "g", "size", "contains", "startsWith", "matches", "int", "string", "max", "myFn", "is_ok", "h1_v", "va", "getHours", "lookup",
       "F", "G", "myfn", "MYFN", "Lookup", "ff", "f_", "is_OK"]


def names_in(e, vars_out, fns_out):
    k = e[0]
    if k == 'id':
        vars_out.add(e[1].lstrip('.'))
    elif k == 'call':
        fns_out.add(e[1])
    elif k == 'mcall':
        fns_out.add(e[2])
    elif k == 'macro':
        vars_out.add(e[3])
    for c in e[1:]:
        if isinstance(c, tuple) and c and isinstance(c[0], str) and c[0] in NODE_KINDS:
            names_in(c, vars_out, fns_out)
        elif isinstance(c, list):
            for x in c:
                if isinstance(x, tuple) and x and isinstance(x[0], str) and x[0] in NODE_KINDS:
                    names_in(x, vars_out, fns_out)
                elif isinstance(x, tuple):
                    for y in x:
                        if isinstance(y, tuple) and y and isinstance(y[0], str) and y[0] in NODE_KINDS:
                            names_in(y, vars_out, fns_out)


NODE_KINDS = {'lit', 'id', 'sel', 'has', 'idx', 'call', 'mcall', 'list', 'map', 'struct', 'un', 'run', 'bin', 'cond', 'macro'}


def units(tier, seed):
    return [('programs', i) for i in range(32 if tier == 'quick' else 1600)]


def add_dots(e, rng):
    """Leading-dot spelling of some identifiers / global calls."""
    k = e[0]
    if k == 'id' and rng.random() < 0.1:
        return ('id', '.' + e[1])
    if k == 'call' and rng.random() < 0.08 and e[1] not in ('has',):
        return ('call', '.' + e[1], [add_dots(a, rng) for a in e[2]])
    out = []
    for c in e:
        if isinstance(c, tuple) and c and isinstance(c[0], str) and c[0] in NODE_KINDS:
            out.append(add_dots(c, rng))
        elif isinstance(c, list):
            l2 = []
            for x in c:
                if isinstance(x, tuple) and x and isinstance(x[0], str) and x[0] in NODE_KINDS:
                    l2.append(add_dots(x, rng))
                elif isinstance(x, tuple):
                    l2.append(tuple(add_dots(y, rng) if (isinstance(y, tuple) and y and isinstance(y[0], str) and y[0] in NODE_KINDS) else y for y in x))
                else:
                    l2.append(x)
            out.append(l2)
        else:
            out.append(c)
    return tuple(out)


def run_unit(unit, drv, res, seed, tier):
    rng = rng_for(seed, 'C19', unit[1])
    items = []
    for _ in range(900):
        idents = rng.sample(VARS, rng.randint(2, 6))
        funcs = rng.sample(FNS, rng.randint(2, 6))
        if rng.random() < 0.35:
            # force a near-duplicate pair into the pool
            a = rng.choice(["a", "x", "foo", "size", "a1", "lst", "req"])
            idents = [a, {"a": "A", "x": "X", "foo": "FOO", "size": "Size", "a1": "A1", "lst": "lsT", "req": "Req"}[a]] + idents[:2]
            b = rng.choice(["f", "g", "myFn", "lookup", "is_ok"])
            funcs = [b, {"f": "F", "g": "G", "myFn": "myfn", "lookup": "Lookup", "is_ok": "is_OK"}[b]] + funcs[:2]
        g = UntypedGen(rng, idents=idents, funcs=funcs)
        e = g.gen(rng.choice([1, 2, 3, 4, 5, 6, 7]))
        e = add_dots(e, rng)
        try:
            src = render_min(e) if rng.random() < 0.8 else render_full(e)
        except ValueError:
            continue
        vs, fs = set(), set()
        names_in(e, vs, fs)
        defined_v = [n for n in sorted(vs) if rng.random() < 0.5]
        defined_f = [n for n in sorted(fs) if rng.random() < 0.5 and not n.startswith('.')]
        vals = [I(1), S("s"), L([I(1), I(2)]), M([(S("a"), I(1))]), B(True), NULL, M([])]
        ctx_a = [(n, rng.choice(vals)) for n in defined_v]
        items.append((src, vs, fs, 'subset', exec_case(0, src, ctx_a, refs=True, define_fns=defined_f)))
        items.append((src, vs, fs, 'all', exec_case(0, src, [], refs=True, define_all=True)))
    cases = []
    for i, it in enumerate(items):
        c = dict(it[4])
        c["id"] = i
        cases.append(c)
    out = drv.run(cases, 'programs')
    by_src = {}
    for c, r, (src, vs, fs, mode, _) in zip(cases, out, items):
        res.evaluations += 1
        if len(vs | fs) >= 2:
            res.nt(src + mode)
        o = top_outcome(r)
        if is_crash(o):
            res.violation(o[0], 'references + execution', crash_sig(o), c, observed=list(o))
            continue
        if o[0] == 'compile_err':
            res.count("outcome:compile_err")
            continue
        if o[0] == 'inconclusive':
            res.inconclusive.append(str(o[1])[:100])
            continue
        refs = r.get('refs')
        if refs is None:
            res.inconclusive.append("no refs")
            continue
        rv, rf = set(refs['vars']), set(refs['fns'])
        res.count("outcome:" + (o[1] if o[0] == 'err' else o[0]))
        res.count("references_reported", len(rv) + len(rf))
        # (5) stable before / after execution, and across contexts
        if r.get('refs_after') != refs:
            res.violation('unstable-report', 'references()', 'report changed by execution', c, expected=refs, observed=r.get('refs_after'))
        prev = by_src.setdefault(src, refs)
        if prev != refs:
            res.violation('unstable-report', 'references()', 'report depends on the context', c, expected=prev, observed=refs)
        # (4) nothing macro-internal
        bad = [n for n in rv | rf if n.startswith('@') and n not in ('@in', '@not_strictly_false')]
        bad += [n for n in rv if n.startswith('@')]
        if bad:
            res.violation('internal-name-reported', 'references()', 'accumulator or internal name reported', c, observed=sorted(bad))
        # (3) every reported variable is an identifier of the source
        extra = [n for n in rv if n not in vs]
        if extra:
            res.violation('phantom-variable', 'references()', 'reported variable does not occur in the source', c,
                          expected=sorted(vs), observed=sorted(extra))
        # (1) an undeclared reference names something reported
        if o[0] == 'err' and o[2] == 'UndeclaredReference':
            name = o[3][0]
            res.count("undeclared_observed")
            if name not in rv and name not in rf:
                res.violation('unreported-reference', 'execution failed on a name that is not reported', 'undeclared reference outside the report', c,
                              expected={"vars": sorted(rv), "fns": sorted(rf)}, observed=name)
            # (2) with everything reported defined, execution never fails that way
            if mode == 'all':
                res.violation('undeclared-despite-definitions', 'context defining every reported reference', 'still undeclared', c,
                              expected="no UndeclaredReference", observed=name)
    res.sample({"src": cases[2]["src"][:300]}, cap=2)


def recheck(cases, out, res):
    for c, r in zip(cases, out):
        print("observed:", str(r)[:1200])
