"""C10 — comprehension macros compute their defining folds."""
import itertools

from celmodel.values import I, U, S, B, top_outcome, is_crash
from celmodel import refeval
from celmodel.refeval import all_outcomes, Unsupported
from celmodel.expr import render_min
from .common import (exec_case, rng_for, same_outcome, mismatch_kind, fmt_outcome, crash_sig, chunks, norm_log)

RULE = ("the five macros (exists_one and existsOne, map with 2 and 3 arguments) over every list of length "
        "0-4 (quick) / 0-6 (thorough) from a 3-symbol alphabet, random lists to length 50, lists of length <= 3 / 4 whose neighbours are identical or equal-but-distinguishable (1, 1u, 1.0, 0.0, -0.0, '1'), maps with 0-4 keys (also keys of different kinds that print alike); long single-thread histories interleaving folds that raise inside the loop with nested folds of 20-90 thousand iterations each (about 5-10 million iterations per history in the quick tier, 40-80 million in the thorough tier); "
        "bodies: pure predicates / transforms, bodies raising on a chosen element, call-logging bodies, and a "
        "second macro nested in the body (same and different variable); observed outcome and ordered call log "
        "compared with Python folds with explicit early exit (map ranges: any key order); non-trivial = range "
        "of length >= 2 or a body that raises or logs; distinct = distinct source")
ASSUMPTIONS = ["for exists_one an error on an element after a second match may or may not surface (the "
               "statement does not say whether it may stop early): both outcomes are accepted"]

X = ('id', 'x')


def lit(v):
    return ('lit', I(v))


def preds(k):
    div = ('bin', '>', ('bin', '/', lit(1), lit(0)), lit(0))
    return [
        ('pure', ('bin', '>', X, lit(0))),
        ('pure', ('bin', '==', X, lit(1))),
        ('pure', ('bin', '!=', X, lit(2))),
        ('pure', ('lit', B(True))),
        ('pure', ('lit', B(False))),
        ('raise', ('cond', ('bin', '==', X, lit(k)), div, ('bin', '>', X, lit(0)))),
        ('raise', ('cond', ('bin', '==', X, lit(k)), div, ('bin', '<', X, lit(2)))),
        ('log', ('call', 't', [X, ('bin', '>', X, lit(0))])),
        ('log', ('call', 't', [X, ('bin', '==', X, lit(1))])),
        ('lograise', ('call', 't', [X, ('cond', ('bin', '==', X, lit(k)), div, ('bin', '!=', X, lit(1)))])),
        ('nested', ('macro', 'exists', ('list', [X, lit(1)]), 'y', [('bin', '>', ('id', 'y'), X)])),
        ('nested-same-var', ('bin', '&&', ('macro', 'all', ('list', [lit(1), lit(2)]), 'x', [('bin', '>', X, lit(0))]),
                             ('bin', '>', X, lit(0)))),
        ('nested-log', ('macro', 'all', ('list', [X, lit(2)]), 'y', [('call', 't', [('bin', '+', ('bin', '*', X, lit(10)), ('id', 'y')), ('bin', '>=', ('id', 'y'), X)])])),
    ]


def transforms(k):
    return [
        ('pure', ('bin', '*', X, lit(2))),
        ('log', ('call', 't', [X, ('bin', '+', X, lit(1))])),
        ('raise', ('cond', ('bin', '==', X, lit(k)), ('bin', '/', lit(1), lit(0)), X)),
        ('raise', ('bin', '/', lit(10), X)),
        ('nested', ('macro', 'map', ('list', [X, lit(7)]), 'y', [('bin', '+', ('id', 'y'), X)])),
        ('nested-same-var', ('macro', 'filter', ('list', [lit(0), lit(1), lit(2)]), 'x', [('bin', '>', X, lit(0))])),
    ]


def programs_for(rng_e, k):
    """All macro programs over the range expression rng_e."""
    out = []
    for kind in ('all', 'exists', 'exists_one', 'existsOne', 'filter'):
        for cls, p in preds(k):
            out.append((('macro', kind, rng_e, 'x', [p]), kind + ':' + cls))
    for cls, f in transforms(k):
        out.append((('macro', 'map', rng_e, 'x', [f]), 'map1:' + cls))
    for (c1, p), (c2, f) in itertools.product(preds(k)[:3] + preds(k)[5:6] + preds(k)[7:8], transforms(k)[:4]):
        out.append((('macro', 'map', rng_e, 'x', [p, f]), 'map2:' + c1 + '+' + c2))
    return out


def units(tier, seed):
    maxlen = 4 if tier == 'quick' else 6
    us = []
    for n in range(0, maxlen + 1):
        lists = list(itertools.product([0, 1, 2], repeat=n))
        step = 27
        for i in range(0, len(lists), step):
            us.append(('lists', n, i, min(len(lists), i + step)))
    us.append(('maps',))
    us.append(('heterolists', 3 if tier == 'quick' else 4))
    us.append(('mixedmaps', 0))
    us.append(('mixedmaps', 1))
    for i in range(2 if tier == 'quick' else 32):
        us.append(('soak', i, 40 if tier == 'quick' else 300))
    us.append(('rangeexpr',))
    us.append(('chained',))
    for i in range(12 if tier == 'quick' else 480):
        us.append(('random', i))
    return us


def judge(res, case, rec, e, fam, variables=None):
    res.evaluations += 1
    obs = top_outcome(rec)
    if obs[0] == 'inconclusive':
        res.inconclusive.append(str(obs[1])[:200])
        return
    if obs[0] == 'compile_err':
        res.violation('rejected', 'macro program', 'compile error', case, observed=str(obs[1])[:300])
        return
    cands = []
    complete = True
    try:
        for early in (False, True):
            refeval.Evaluator.exists_one_early = early
            outs, comp = all_outcomes(e, dict(variables or {}), cap=60)
            complete = complete and comp
            cands.extend(outs)
            if 'exists' not in repr(e):
                break
    except Unsupported:
        res.count("skipped:unsupported")
        return
    finally:
        refeval.Evaluator.exists_one_early = False
    log = norm_log(rec.get("log"))
    res.count("outcome:" + (obs[1] if obs[0] == 'err' else obs[0]))
    res.count("macro:" + fam.split(':')[0])
    res.count("body:" + fam.split(':')[1])
    res.count("host_calls_logged", len(log))
    for o, ev in cands:
        if same_outcome(o, obs) and norm_log(ev.log) == log:
            return
    if not complete and not is_crash(obs):
        res.count("skipped:map-order-unbounded")
        return
    o0, ev0 = cands[0]
    if is_crash(obs):
        res.violation(obs[0], 'macro ' + fam.split(':')[0], crash_sig(obs), case, observed=list(obs))
    elif not any(same_outcome(o, obs) for o, _ in cands):
        res.violation(mismatch_kind(o0, obs), 'macro ' + fam.split(':')[0], 'fold result differs', case,
                      expected=fmt_outcome(o0), observed=fmt_outcome(obs))
    else:
        res.violation('log-mismatch', 'macro ' + fam.split(':')[0], 'elements visited differ', case,
                      expected=norm_log(ev0.log)[:100], observed=log[:100])


def run_items(res, drv, items, tag, variables=None):
    for part in chunks(items, 4000):
        cases = [exec_case(i, render_min(e), variables) for i, (e, fam, nt) in enumerate(part)]
        out = drv.run(cases, tag)
        for c, r, (e, fam, nt) in zip(cases, out, part):
            judge(res, c, r, e, fam, variables)
            if nt:
                res.nt(c["src"])
        if part:
            res.sample({"src": cases[len(cases) // 2]["src"]}, cap=2)


def run_unit(unit, drv, res, seed, tier):
    kind = unit[0]
    items = []
    if kind == 'lists':
        n = unit[1]
        lists = list(itertools.product([0, 1, 2], repeat=n))[unit[2]:unit[3]]
        for xs in lists:
            rng_e = ('list', [lit(v) for v in xs])
            for k in (0, 1, 2):
                if k not in xs and k != 0:
                    continue
                for e, fam in programs_for(rng_e, k):
                    cls = fam.split(':')[1]
                    items.append((e, fam, n >= 2 or cls != 'pure'))
        run_items(res, drv, items, 'lists')
        res.exhaustive_done['lists-len-%d' % n] = True
    elif kind == 'rangeexpr':
        # the range is an operand: evaluated completely, once, in the enclosing scope, before the fold starts -
        # also when its element expressions mention a name the macro is about to bind
        ctx = [("x", I(10)), ("y", I(20)), ("l", ('l', [I(1), I(2), I(3)]))]
        Y = ('id', 'y')
        ranges = [
            ('list', [('bin', '+', X, lit(1)), ('bin', '+', X, lit(2)), ('bin', '+', X, lit(3))]),
            ('list', [Y, X, ('bin', '*', X, lit(2))]),
            ('list', [lit(1), X]),
            ('list', [('call', 't', [lit(100), X]), ('call', 't', [lit(101), ('bin', '+', X, lit(1))])]),
            ('list', [lit(1), ('bin', '/', lit(1), lit(0))]),
            ('list', [lit(1), lit(2), ('bin', '/', X, lit(0))]),
            ('bin', '+', ('id', 'l'), ('list', [X])),
            ('macro', 'map', ('id', 'l'), 'x', [('bin', '+', X, lit(1))]),
            ('map', [(X, lit(1)), (('bin', '+', X, lit(1)), lit(2))]),
        ]
        for rng_e in ranges:
            for kind_m in ('all', 'exists', 'exists_one', 'filter'):
                for body in (('bin', '>', X, lit(0)), ('bin', '==', X, lit(1)), ('bin', '==', X, lit(11)), ('lit', B(True)), ('call', 't', [X, ('bin', '<', X, lit(12))])):
                    items.append((('macro', kind_m, rng_e, 'x', [body]), kind_m + ':rangeexpr', True))
            for body in (X, ('bin', '+', X, Y), ('call', 't', [X, X])):
                items.append((('macro', 'map', rng_e, 'x', [body]), 'map1:rangeexpr', True))
                items.append((('macro', 'map', rng_e, 'x', [('bin', '>', X, lit(10)), body]), 'map2:rangeexpr', True))
            # the same name bound by an enclosing macro
            items.append((('macro', 'map', ('list', [lit(10), lit(20)]), 'x', [('macro', 'map', ('list', [('bin', '+', X, lit(1)), ('bin', '+', X, lit(2))]), 'x', [X])]), 'map1:rangeexpr-nested', True))
            items.append((('macro', 'map', ('list', [lit(10), lit(20)]), 'x', [('macro', 'filter', rng_e, 'x', [('bin', '>', X, lit(10))])]), 'filter:rangeexpr-nested', True))
        run_items(res, drv, items, 'rangeexpr', ctx)
        res.exhaustive_done['range-expressions'] = True
    elif kind == 'chained':
        # a macro applied to the result of another macro (same and different variable names)
        R0 = ('list', [lit(v) for v in (0, 1, 2, 3, 4)])
        R1 = ('list', [lit(v) for v in (2, 0, 2)])
        pa = lambda v: ('bin', '>', ('id', v), lit(1))
        pb = lambda v: ('bin', '==', ('bin', '%', ('id', v), lit(2)), lit(0))
        pl = lambda v, k: ('call', 't', [('bin', '+', ('bin', '*', ('id', v), lit(10)), lit(k)), pa(v)])
        fa = lambda v: ('bin', '*', ('id', v), lit(10))
        fl = lambda v, k: ('call', 't', [('bin', '+', ('bin', '*', ('id', v), lit(10)), lit(k)), ('bin', '+', ('id', v), lit(1))])
        fe = lambda v: ('bin', '/', lit(10), ('id', v))
        for R in (R0, R1):
            for v1, v2 in (('x', 'x'), ('x', 'y')):
                for p1 in (pa(v1), pb(v1), pl(v1, 1)):
                    inner_f = ('macro', 'filter', R, v1, [p1])
                    for outer in (('macro', 'map', inner_f, v2, [fa(v2)]), ('macro', 'map', inner_f, v2, [fl(v2, 2)]),
                                  ('macro', 'map', inner_f, v2, [pb(v2), fa(v2)]), ('macro', 'map', inner_f, v2, [pb(v2), fl(v2, 2)]),
                                  ('macro', 'map', inner_f, v2, [fe(v2)]), ('macro', 'all', inner_f, v2, [pb(v2)]),
                                  ('macro', 'exists', inner_f, v2, [pl(v2, 3)]), ('macro', 'exists_one', inner_f, v2, [pb(v2)]),
                                  ('macro', 'filter', inner_f, v2, [pb(v2)])):
                        items.append((outer, 'chain:filter-then-' + outer[1], True))
                for f1 in (fa(v1), fl(v1, 1)):
                    for inner_m in (('macro', 'map', R, v1, [f1]), ('macro', 'map', R, v1, [pa(v1), f1])):
                        for outer in (('macro', 'map', inner_m, v2, [('bin', '+', ('id', v2), lit(1))]), ('macro', 'filter', inner_m, v2, [pa(v2)]),
                                      ('macro', 'map', inner_m, v2, [pb(v2), fl(v2, 4)]), ('macro', 'exists', inner_m, v2, [pl(v2, 5)]),
                                      ('macro', 'all', inner_m, v2, [pa(v2)])):
                            items.append((outer, 'chain:map-then-' + outer[1], True))
        run_items(res, drv, items, 'chained')
        res.exhaustive_done['chained-macros'] = True
    elif kind == 'heterolists':
        # lists whose neighbours are identical or equal under == yet distinguishable (1, 1u, 1.0; 0.0, -0.0): every
        # element is visited in its own right and the folds see exactly the current one
        from celmodel.values import D
        alpha = [I(1), U(1), D(1.0), D(0.0), D(-0.0), I(2), S('1')]
        n_max = unit[1]
        for n in range(1, n_max + 1):
            for xs in itertools.product(alpha, repeat=n):
                if n == n_max and len(set(map(repr, xs))) > 3:
                    continue
                rng_e = ('list', [('lit', v) for v in xs])
                one = ('lit', I(1))
                for e, fam in ((('macro', 'map', rng_e, 'x', [X]), 'map1:hetero'),
                               (('macro', 'map', rng_e, 'x', [('list', [X, X])]), 'map1:hetero'),
                               (('macro', 'filter', rng_e, 'x', [('bin', '==', X, one)]), 'filter:hetero'),
                               (('macro', 'filter', rng_e, 'x', [('lit', B(True))]), 'filter:hetero'),
                               (('macro', 'map', rng_e, 'x', [('bin', '==', X, one), X]), 'map2:hetero'),
                               (('macro', 'all', rng_e, 'x', [('call', 't', [X, ('bin', '==', X, one)])]), 'all:hetero'),
                               (('macro', 'exists', rng_e, 'x', [('call', 't', [X, ('bin', '!=', X, one)])]), 'exists:hetero'),
                               (('macro', 'exists_one', rng_e, 'x', [('call', 't', [X, ('bin', '==', X, one)])]), 'exists_one:hetero'),
                               (('macro', 'map', rng_e, 'x', [('macro', 'map', rng_e, 'y', [('list', [X, ('id', 'y')])])]), 'map1:hetero-nested')):
                    items.append((e, fam, True))
        run_items(res, drv, items, 'heterolists')
        res.exhaustive_done['lists-of-equal-but-distinguishable-neighbours-len-le-%d' % n_max] = True
    elif kind == 'mixedmaps':
        # maps whose keys are of different kinds and partly print alike (1, 1u, '1', true, 'true'): every key is
        # an element of the range in its own right
        keys = [I(1), U(1), S('1'), B(True), S('true'), I(2), S('2')]
        bodies_p = [('lit', B(True)), ('lit', B(False)), ('bin', '==', X, lit(1)), ('bin', '==', X, ('lit', S('1'))),
                    ('bin', '==', X, X), ('bin', '!=', X, ('lit', B(True))), ('call', 't', [X, ('lit', B(True))]),
                    ('call', 't', [X, ('bin', '==', X, ('lit', S('true')))]),
                    ('bin', '||', ('bin', '==', X, lit(1)), ('bin', '==', X, ('lit', S('1'))))]
        bodies_f = [X, ('list', [X]), ('call', 't', [X, X]), ('bin', '==', X, lit(1))]
        idx = 0
        for n in range(0, 5):
            for ks in itertools.combinations(keys, n):
                idx += 1
                if idx % 2 != unit[1]:
                    continue
                rng_e = ('map', [(('lit', k), ('lit', S('v'))) for k in ks])
                for mk in ('all', 'exists', 'exists_one', 'existsOne', 'filter'):
                    for b in bodies_p:
                        items.append((('macro', mk, rng_e, 'x', [b]), mk + ':mixedkeys', True))
                for f in bodies_f:
                    items.append((('macro', 'map', rng_e, 'x', [f]), 'map1:mixedkeys', True))
                    items.append((('macro', 'map', rng_e, 'x', [bodies_p[2], f]), 'map2:mixedkeys', True))
                    items.append((('mcall', ('macro', 'map', rng_e, 'x', [f]), 'size', []), 'map1:mixedkeys-size', True))
                items.append((('mcall', ('macro', 'filter', rng_e, 'x', [('lit', B(True))]), 'size', []), 'filter:mixedkeys-size', True))
        run_items(res, drv, items, 'mixedmaps')
        res.exhaustive_done['maps-0-4-keys-of-mixed-kinds'] = True
    elif kind == 'soak':
        # one long history in one driver thread: macros whose body raises inside the loop (at every nesting
        # level) interleaved with large folds (tens of thousands of iterations each, millions in total); every
        # execution must give what the same program gives on first use - state left behind by an aborted
        # or by a long fold (counters, budgets, depth trackers, caches) must not leak into later executions
        rng = rng_for(seed, 'C10', 'soak', unit[1])
        N = rng.choice([200, 250, 300])
        ctx = [("r", ('l', [I(i) for i in range(N)])), ("h", I(N // 2))]
        R, Y, H = ('id', 'r'), ('id', 'y'), ('id', 'h')
        big = [
            ('macro', 'all', R, 'x', [('macro', 'all', R, 'y', [('bin', '>=', Y, lit(0))])]),
            ('mcall', ('macro', 'map', R, 'x', [('macro', 'exists_one', R, 'y', [('bin', '==', Y, X)])]), 'size', []),
            ('mcall', ('macro', 'filter', R, 'x', [('macro', 'exists', R, 'y', [('bin', '==', Y, ('bin', '+', X, lit(1)))])]), 'size', []),
            ('macro', 'exists_one', R, 'x', [('macro', 'all', R, 'y', [('bin', '<=', Y, X)])]),
            ('mcall', ('macro', 'map', R, 'x', [('bin', '==', ('bin', '%', X, lit(7)), lit(0)), ('mcall', ('macro', 'filter', R, 'y', [('bin', '<', Y, X)]), 'size', [])]), 'size', []),
        ]
        raising = [
            ('macro', 'map', ('list', [lit(1), lit(0), lit(2)]), 'x', [('bin', '/', lit(10), X)]),
            ('macro', 'all', R, 'x', [('bin', '!=', ('bin', '/', lit(1), ('bin', '-', X, H)), lit(7))]),
            ('macro', 'exists', R, 'x', [('bin', '>', ('mcall', ('macro', 'map', R, 'y', [('bin', '/', lit(1), ('bin', '-', ('bin', '+', Y, H), X))]), 'size', []), lit(1 << 40))]),
            ('macro', 'filter', R, 'x', [('macro', 'exists_one', ('list', [X]), 'y', [('bin', '==', ('bin', '%', lit(1), ('bin', '-', Y, H)), lit(9))])]),
            ('macro', 'all', lit(1), 'x', [('lit', B(True))]),
            ('macro', 'map', R, 'x', [('bin', '==', X, H), ('bin', '+', X, ('lit', I(9223372036854775807)))]),
        ]
        seq = []
        for rep in range(unit[2]):
            seq.append(rng.choice(raising))
            order = list(big)
            rng.shuffle(order)
            for b in order:
                seq.append(b)
                if rng.random() < 0.3:
                    seq.append(rng.choice(raising))
        cache = {}
        cases = [exec_case(i, render_min(e), ctx) for i, e in enumerate(seq)]
        out = drv.run(cases, 'soak')
        iters = 0
        for c, r, e in zip(cases, out, seq):
            res.evaluations += 1
            res.nt(c["src"] + '#%d' % c["id"])
            obs = top_outcome(r)
            if obs[0] == 'inconclusive':
                res.inconclusive.append(str(obs[1])[:200])
                continue
            if c["src"] not in cache:
                ev_outs, _comp = all_outcomes(e, dict(ctx), cap=4)
                cache[c["src"]] = (ev_outs[0][0], getattr(ev_outs[0][1], "iters", 0))
            exp, it = cache[c["src"]]
            iters += it
            res.count("soak_outcome:" + (obs[1] if obs[0] == 'err' else obs[0]))
            if is_crash(obs):
                res.violation(obs[0], 'macro history', crash_sig(obs), c, observed=list(obs))
            elif not same_outcome(exp, obs):
                res.violation(mismatch_kind(exp, obs), 'macro history', 'fold result differs late in a long history', cases[:c["id"] + 1],
                              expected=fmt_outcome(exp), observed=fmt_outcome(obs),
                              note="step %d of %d in one driver thread, about %d fold iterations before it" % (c["id"], len(cases), iters))
        res.count("soak_iterations_model", iters)
        res.count("soak_histories")
    elif kind == 'maps':
        keys = [I(0), I(1), I(2), S('a')]
        for n in range(0, 5):
            for ks in itertools.combinations(keys, n):
                rng_e = ('map', [(('lit', k), ('lit', S('v'))) for k in ks])
                for e, fam in programs_for(rng_e, 1):
                    # bodies compare x with ints: a string key would be a type error there; keep
                    # string keys for the constant / logging bodies only
                    if any(k[0] == 's' for k in ks) and not ('true' in render_min(e) or 'false' in render_min(e)):
                        continue
                    items.append((e, fam, True))
        run_items(res, drv, items, 'maps')
        res.exhaustive_done['maps-0-4-keys'] = True
    else:
        rng = rng_for(seed, 'C10', unit[1])
        for _ in range(600):
            n = rng.choice([5, 6, 7, 8, 10, 15, 25, 50])
            xs = [rng.choice([0, 1, 2, 3, -1]) for _ in range(n)]
            rng_e = ('list', [lit(v) for v in xs])
            k = rng.choice(xs)
            progs = programs_for(rng_e, k)
            for e, fam in rng.sample(progs, 4):
                items.append((e, fam, True))
        run_items(res, drv, items, 'random')


def recheck(cases, out, res):
    if len(cases) > 1:
        # a history: the same program must give the same outcome at every step
        first = {}
        for c, r in zip(cases, out):
            obs = top_outcome(r)
            if c["src"] in first and not same_outcome(first[c["src"]], obs) and not is_crash(obs):
                print("step", c["id"], c["src"][:120], "first:", fmt_outcome(first[c["src"]]), "now:", fmt_outcome(obs))
                res.violation('history', 'replay', 'same program, different outcome later in the history', c)
            first.setdefault(c["src"], obs)
    for c, r in zip(cases, out):
        obs = top_outcome(r)
        print("observed:", fmt_outcome(obs) if not is_crash(obs) else obs, "log:", r.get("log"))
        if is_crash(obs):
            res.violation(obs[0], 'replay', crash_sig(obs), c)
