"""C18 — exporting a CEL value to JSON is total and faithful."""
import base64
import json
import re

from celmodel.values import (I, U, D, S, Y, B, L, M, NULL, DUR, TS, to_json, from_json, top_outcome, outcome, is_crash,
                             canon, I64_MIN, I64_MAX, U64_MAX, depth)
from celmodel.gen import hostile_pool, rnd_value, rnd_key
from .common import rng_for, crash_sig, chunks, fmt_outcome

RULE = ("values from the hostile generator of C02 (depth <= 5): functions at top level and nested in lists / maps, "
        "durations on both sides of +-2^63 ns, NaN / +-inf, empty collections, bytes incl. non-UTF-8, timestamps with "
        "offsets and fractions, maps whose int / uint / bool / string keys render to the same text; observed: "
        "Value::json() and, for the exported document, to_value(&doc) (both in the driver); oracle: expected document "
        "built in Python (colliding keys may keep either value), Err for values containing a function or an "
        "out-of-range duration, and CEL-equality of the re-imported value for JSON-native originals with "
        "text-distinct string keys; non-trivial = value of depth >= 2 or with a non-string key; distinct = distinct value")
ASSUMPTIONS = ["timestamps are compared as instants + offset after parsing the exported RFC 3339 text (the exact "
               "number of fraction digits is not pinned down)"]

TS_RE = re.compile(r'^([+-]?\d{4,6})-(\d\d)-(\d\d)T(\d\d):(\d\d):(\d\d)(?:\.(\d{1,9}))?(Z|[+-]\d\d:\d\d)$')


class MustFail(Exception):
    def __init__(self, why):
        self.why = why


def key_text(k):
    if k[0] == 'b':
        return 'true' if k[1] else 'false'
    return str(k[1])


class AnyOf:
    """Marker: the exported member may be any of these candidates (colliding key texts)."""
    def __init__(self, cands):
        self.cands = cands


def expected_doc(v):
    k = v[0]
    if k == 'n':
        return None
    if k == 'b':
        return v[1]
    if k in ('i', 'u'):
        return v[1]
    if k == 'd':
        f = v[1]
        if f != f or f in (float('inf'), float('-inf')):
            return None
        return f
    if k == 's':
        return v[1]
    if k == 'y':
        return base64.b64encode(v[1]).decode('ascii')
    if k == 'l':
        return [expected_doc(x) for x in v[1]]
    if k == 'm':
        out = {}
        for kk, vv in v[1]:
            t = key_text(kk)
            e = expected_doc(vv)
            if t in out:
                prev = out[t]
                out[t] = AnyOf((prev.cands if isinstance(prev, AnyOf) else [prev]) + [e])
            else:
                out[t] = e
        return out
    if k == 'dur':
        if not (I64_MIN <= v[1] <= I64_MAX):
            raise MustFail('DurationOverflow')
        return v[1]
    if k == 'ts':
        return ('ts', v[1])
    if k == 'fn':
        raise MustFail('Value')
    raise ValueError(v)


def days_from_civil(y, m, d):
    y -= 1 if m <= 2 else 0
    era = (y if y >= 0 else y - 399) // 400
    yoe = y - era * 400
    doy = (153 * (m + (-3 if m > 2 else 9)) + 2) // 5 + d - 1
    doe = yoe * 365 + yoe // 4 - yoe // 100 + doy
    return era * 146097 + doe - 719468


def parse_ts(text):
    m = TS_RE.match(text)
    if not m:
        return None
    y, mo, d, hh, mi, ss, frac, off = m.groups()
    o = 0 if off == 'Z' else (1 if off[0] == '+' else -1) * (int(off[1:3]) * 3600 + int(off[4:6]) * 60)
    local = days_from_civil(int(y), int(mo), int(d)) * 86400 + int(hh) * 3600 + int(mi) * 60 + int(ss)
    nanos = int((frac or '0').ljust(9, '0'))
    return (local - o, nanos, o)


def match(exp, got):
    """Strictly typed comparison of the expected document with the parsed exported one."""
    if isinstance(exp, AnyOf):
        return any(match(c, got) for c in exp.cands)
    if isinstance(exp, tuple) and exp and exp[0] == 'ts':
        secs, nanos, off = exp[1]
        if not (-62135596800 <= secs <= 253402300799 and -62135596800 <= secs + off <= 253402300799) or off % 60:
            # outside what RFC 3339 can spell (year range, whole-minute offsets): only a string is required
            return isinstance(got, str)
        return isinstance(got, str) and parse_ts(got) == tuple(exp[1])
    if exp is None or isinstance(exp, bool):
        return exp is got
    if isinstance(exp, int):
        return isinstance(got, int) and not isinstance(got, bool) and exp == got
    if isinstance(exp, float):
        if not isinstance(got, float):
            return False
        return exp == got and (str(exp)[0] == '-') == (str(got)[0] == '-')
    if isinstance(exp, str):
        return isinstance(got, str) and exp == got
    if isinstance(exp, list):
        return isinstance(got, list) and len(exp) == len(got) and all(match(a, b) for a, b in zip(exp, got))
    if isinstance(exp, dict):
        return isinstance(got, dict) and set(exp) == set(got) and all(match(exp[k], got[k]) for k in exp)
    return False


def json_native(v):
    """Only JSON-native kinds, string keys, pairwise text-distinct; finite doubles."""
    k = v[0]
    if k in ('n', 'b', 's', 'i', 'u'):
        return True
    if k == 'd':
        f = v[1]
        return f == f and f not in (float('inf'), float('-inf'))
    if k == 'l':
        return all(json_native(x) for x in v[1])
    if k == 'm':
        keys = [kk for kk, _ in v[1]]
        return all(kk[0] == 's' for kk in keys) and len({kk[1] for kk in keys}) == len(keys) and all(json_native(x) for _, x in v[1])
    return False


def jsonable_doc(e):
    if isinstance(e, AnyOf):
        return {"any_of": [jsonable_doc(c) for c in e.cands]}
    if isinstance(e, tuple):
        return {"timestamp": list(e[1])}
    if isinstance(e, list):
        return [jsonable_doc(x) for x in e]
    if isinstance(e, dict):
        return {k: jsonable_doc(v) for k, v in e.items()}
    if isinstance(e, float) and (e != e):
        return "NaN"
    return e


def check(res, case, rec):
    res.evaluations += 1
    v = from_json(case["v"])
    if depth(v) >= 2 or (v[0] == 'm' and any(k[0] != 's' for k, _ in v[1])):
        res.nt(canon(v))
    if not (isinstance(rec, dict) and ('doc' in rec or 'jerr' in rec)):
        o = top_outcome(rec, 'doc')
        if is_crash(o):
            res.violation(o[0], 'JSON export', crash_sig(o), case, observed=list(o))
        else:
            res.inconclusive.append("json: " + str(rec)[:200])
        return
    try:
        exp = expected_doc(v)
        must_fail = None
    except MustFail as mf:
        exp, must_fail = None, mf.why
    if must_fail:
        res.count("outcome:expected-error")
        if 'jerr' not in rec:
            res.violation('value-instead-of-error', 'export of a value containing a function or an out-of-range duration',
                          'exported', case, expected="Err(%s)" % must_fail, observed=rec.get('doc', '')[:200])
        return
    if 'jerr' in rec:
        res.violation('error-instead-of-value', 'export of an exportable value', 'Err(' + rec['jerr'] + ')', case,
                      expected=jsonable_doc(exp), observed=rec.get('jerr_disp', '')[:200])
        return
    res.count("outcome:exported")
    try:
        got = json.loads(rec['doc'])
    except Exception as e:
        res.violation('malformed-document', 'JSON export', 'document does not parse', case, observed=rec['doc'][:200])
        return
    if not match(exp, got):
        res.violation('wrong-document', 'JSON export of ' + v[0], 'document differs from the structure of the value', case,
                      expected=jsonable_doc(exp), observed=rec['doc'][:400])
        return
    if json_native(v):
        res.count("round_trips_checked")
        if rec.get('back_eq') is not True:
            res.violation('round-trip', 'JSON export + import of a JSON-native value', 're-imported value is not equal to the original', case,
                          expected=case["v"], observed=rec.get('back', rec.get('back_err')))


def native_value(rng, d):
    m = rng.random()
    if d > 0 and m < 0.25:
        return L([native_value(rng, d - 1) for _ in range(rng.randint(0, 3))])
    if d > 0 and m < 0.5:
        ks = rng.sample(["a", "b", "k", "", "1", "true", "é", "x y"], rng.randint(0, 3))
        return M([(S(k), native_value(rng, d - 1)) for k in ks])
    return rng.choice([NULL, B(True), B(False), I(0), I(-1), I(I64_MIN), I(I64_MAX), U(0), U(1), U(I64_MAX), U(I64_MAX + 1), U(U64_MAX),
                       U(U64_MAX - 1), D(0.0), D(-0.0), D(1.0), D(1.5), D(1e300), D(5e-324), D(-2.5), D(float(1 << 53)), S(""), S("a"), S("é𝄞"), S("\x00\"\\")])


def units(tier, seed):
    us = [('pool',), ('collide',)]
    for i in range(24 if tier == 'quick' else 1280):
        us.append(('random', i))
    return us


def run_unit(unit, drv, res, seed, tier):
    rng = rng_for(seed, 'C18', *unit)
    vals = []
    if unit[0] == 'pool':
        pool = hostile_pool()
        vals += pool
        for v in pool:
            vals.append(L([v]))
            vals.append(M([(S("k"), v)]))
            vals.append(L([I(1), M([(S("deep"), L([v]))])]))
        res.exhaustive_done['pool-top-level-and-nested'] = True
    elif unit[0] == 'collide':
        for a, b in [(I(1), S("1")), (U(1), S("1")), (I(1), U(1)), (B(True), S("true")), (B(False), S("false")), (I(-1), S("-1")), (U(U64_MAX), S(str(U64_MAX)))]:
            for va, vb in [(I(10), I(20)), (S("x"), L([I(1)])), (NULL, B(True))]:
                vals.append(M([(a, va), (b, vb)]))
                vals.append(M([(b, vb), (a, va)]))
                vals.append(M([(a, va), (b, vb), (S("other"), I(0))]))
        vals.append(M([(I(1), I(1)), (U(1), I(2)), (S("1"), I(3))]))
        res.exhaustive_done['colliding-key-texts'] = True
    else:
        for _ in range(1200):
            m = rng.random()
            if m < 0.5:
                vals.append(rnd_value(rng, rng.choice([1, 2, 3, 4, 5])))
            else:
                vals.append(native_value(rng, rng.choice([0, 1, 2, 3, 4])))
    cases = [{"id": i, "op": "json", "v": to_json(v)} for i, v in enumerate(vals)]
    for part in chunks(cases, 4000):
        out = drv.run(part, unit[0])
        for c, r in zip(part, out):
            check(res, c, r)
    res.sample({"v": cases[len(cases) // 2]["v"]}, cap=2)


def recheck(cases, out, res):
    for c, r in zip(cases, out):
        print("observed:", str(r)[:800])
        check(res, c, r)
