"""C08 — 64-bit integer arithmetic is exact or reports overflow."""
import os
from celmodel.values import I, U, D, to_json, top_outcome, is_crash, I64_MIN, I64_MAX, U64_MAX
from celmodel.refeval import arith, CelError
from celmodel.expr import render_literal
from .common import (exec_case, rng_for, same_outcome, mismatch_kind, fmt_outcome, crash_sig,
                     I64_BOUNDARY, U64_BOUNDARY)

RULE = ("a op b programs over int / uint operand pairs (operators + - * / %, unary minus), written as "
        "literals (decimal and hexadecimal) and as context variables: exhaustive boundary-set pairs, uniformly and log-uniformly "
        "random pairs, and a cross-type sample; a case is non-trivial when an operand lies outside "
        "[-2^31, 2^31] or the operands are of different kinds; distinct = distinct (form, op, operands)")
ASSUMPTIONS = ["oracle: Python arbitrary-precision integers; error classes from ExecutionError variants"]

OPS = ['+', '-', '*', '/', '%']


def units(tier, seed):
    us = []
    for kind in ('i', 'u'):
        for op in OPS:
            for form in ('lit', 'var', 'hex'):
                us.append(('pairs', kind, op, form))
    us.append(('neg',))
    for k in ('i', 'u'):
        for op1 in OPS:
            us.append(('trees', k, op1))
    us.append(('crosstrees',))
    nrand = 16 if tier == 'quick' else 640
    for i in range(nrand):
        us.append(('random', i))
    us.append(('cross',))
    return us


def expected(op, a, b):
    try:
        return ('ok', arith(op, a, b))
    except CelError as e:
        return ('err', e.cls)


def hexlit(v):
    """The same number as a hexadecimal literal (CEL's other spelling of int / uint constants)."""
    if v[0] == 'u':
        return "0x%xu" % v[1]
    return ("-0x%x" % -v[1]) if v[1] < 0 else ("0x%X" % v[1])


def build(cid, op, a, b, form):
    if form == 'hex':
        return exec_case(cid, "%s %s %s" % (hexlit(a), op, hexlit(b)))
    if form == 'lit':
        return exec_case(cid, "%s %s %s" % (render_literal(a), op, render_literal(b)))
    return exec_case(cid, "a %s b" % op, [("a", a), ("b", b)])


def nontrivial(a, b):
    return a[0] != b[0] or abs(a[1]) > (1 << 31) or abs(b[1]) > (1 << 31)


def check_pair(res, case, rec, op, a, b, form):
    res.evaluations += 1
    exp = expected(op, a, b)
    obs = top_outcome(rec)
    res.count("outcome:" + (obs[1] if obs[0] == 'err' else obs[0]))
    if nontrivial(a, b):
        res.nt("%s|%s|%r|%r" % (form, op, a, b))
    if not same_outcome(exp, obs):
        kind = mismatch_kind(exp, obs)
        res.violation(kind, "%s %s %s" % (a[0], op, b[0]),
                      crash_sig(obs) if is_crash(obs) else kind, case,
                      expected=fmt_outcome(exp), observed=fmt_outcome(obs))
    return obs


def run_unit(unit, drv, res, seed, tier):
    kind = unit[0]
    if kind == 'pairs':
        _, k, op, form = unit
        vals = [I(x) for x in I64_BOUNDARY] if k == 'i' else [U(x) for x in U64_BOUNDARY]
        cases, meta = [], []
        for a in vals:
            for b in vals:
                cases.append(build(len(cases), op, a, b, form))
                meta.append((a, b))
        out = drv.run(cases, "pairs")
        table = {}
        for c, r, (a, b) in zip(cases, out, meta):
            obs = check_pair(res, c, r, op, a, b, form)
            table[(a[1], b[1])] = obs
        res.exhaustive_done["%s-pairs" % k] = True
        res.sample({"src": cases[len(cases) // 2]["src"], "vars": cases[len(cases) // 2].get("vars")})
        # division identity from the *observed* results needs both / and %: done in 'random'
    elif kind == 'trees':
        # two operators: (a op1 b) op2 c and a op1 (b op2 c); every operator application is exact or an error,
        # evaluated left to right with the first error aborting (no widening across a chain, no algebraic short cuts)
        _, k, op1 = unit
        small = [0, 1, -1, 2, 3, I64_MAX, I64_MIN, I64_MAX - 1, I64_MIN + 1, 1 << 32, 3037000500] if k == 'i' else [0, 1, 2, 3, U64_MAX, U64_MAX - 1, 1 << 63, 1 << 32, 4294967295]
        mk = I if k == 'i' else U
        cases, meta = [], []
        for op2 in OPS:
            for a in small:
                for b in small:
                    for c in small:
                        if (a * 7 + b * 13 + c * 31 + len(cases)) % 3:
                            continue
                        for shape in ('L', 'R', 'flat'):
                            va, vb, vc = mk(a), mk(b), mk(c)
                            if shape == 'L':
                                src, tree = "(a %s b) %s c" % (op1, op2), ('L',)
                            elif shape == 'R':
                                src, tree = "a %s (b %s c)" % (op1, op2), ('R',)
                            else:
                                src, tree = "a %s b %s c" % (op1, op2), ('flat',)
                            cases.append(exec_case(len(cases), src, [("a", va), ("b", vb), ("c", vc)]))
                            meta.append((shape, op2, va, vb, vc))
        prec = {'+': 1, '-': 1, '*': 2, '/': 2, '%': 2}

        def ev2(shape, op2, va, vb, vc):
            try:
                if shape == 'L' or (shape == 'flat' and prec[op1] >= prec[op2]):
                    return ('ok', arith(op2, arith(op1, va, vb), vc))
                # a op1 (b op2 c): operands left to right, so a (a variable) cannot fail; then the inner application
                return ('ok', arith(op1, va, arith(op2, vb, vc)))
            except CelError as e:
                return ('err', e.cls)
        for part_i in range(0, len(cases), 8000):
            part = cases[part_i:part_i + 8000]
            out = drv.run(part, "trees")
            for c, r, (shape, op2, va, vb, vc) in zip(part, out, meta[part_i:part_i + 8000]):
                res.evaluations += 1
                exp = ev2(shape, op2, va, vb, vc)
                obs = top_outcome(r)
                res.nt("tree|" + c["src"] + repr((va, vb, vc)))
                res.count("tree_outcome:" + (obs[1] if obs[0] == 'err' else obs[0]))
                if not same_outcome(exp, obs):
                    kindv = mismatch_kind(exp, obs)
                    res.violation(kindv, "two-operator %s expression" % k, crash_sig(obs) if is_crash(obs) else kindv, c,
                                  expected=fmt_outcome(exp), observed=fmt_outcome(obs))
        res.exhaustive_done["%s-trees" % k] = True
    elif kind == 'crosstrees':
        # a compound operand of another numeric kind (or one that fails) is still evaluated and still an error
        from celmodel.refeval import run_once
        from celmodel.expr import render_min
        L_ = lambda v: ('lit', v)
        zeros = [L_(I(0)), L_(U(0)), ('bin', '-', L_(I(5)), L_(I(5))), ('id', 'z'), L_(I(1)), L_(U(1))]
        inners = [('bin', '+', ('id', 'n'), L_(U(1))), ('bin', '+', L_(U(1)), L_(U(2))), ('bin', '+', L_(D(1.5)), L_(D(1.0))),
                  ('bin', '+', ('id', 'big'), L_(I(1))), ('bin', '/', L_(U(1)), L_(U(0))), ('bin', '/', L_(I(1)), L_(I(0))),
                  ('call', 'uint', [L_(I(3))]), ('bin', '*', ('id', 'big'), L_(I(2))), ('call', 'double', [L_(I(1))]),
                  ('bin', '-', ('id', 'big'), L_(I(1))), ('bin', '%', L_(I(7)), L_(I(0)))]
        ctx = [("z", I(0)), ("n", U(3)), ("big", I(I64_MAX))]
        cases, meta = [], []
        for zexp in zeros:
            for op in OPS:
                for inner in inners:
                    for e in (('bin', op, zexp, inner), ('bin', op, inner, zexp)):
                        exp, _ = run_once(e, dict(ctx))
                        cases.append(exec_case(len(cases), render_min(e), ctx))
                        meta.append(exp)
        out = drv.run(cases, "crosstrees")
        for c, r, exp in zip(cases, out, meta):
            res.evaluations += 1
            res.nt("ct|" + c["src"])
            obs = top_outcome(r)
            res.count("crosstree_outcome:" + (obs[1] if obs[0] == 'err' else obs[0]))
            if not same_outcome(exp, obs):
                kindv = mismatch_kind(exp, obs)
                res.violation(kindv, 'compound operand of another kind or failing', crash_sig(obs) if is_crash(obs) else kindv, c,
                              expected=fmt_outcome(exp), observed=fmt_outcome(obs))
        res.exhaustive_done["cross-trees"] = True
    elif kind == 'neg':
        cases, meta = [], []
        for x in I64_BOUNDARY:
            for form in ('lit', 'var', 'paren'):
                v = I(x)
                if form == 'lit':
                    src = "-(%s)" % render_literal(v)
                    c = exec_case(len(cases), src)
                elif form == 'paren':
                    c = exec_case(len(cases), "0 - (-a) == a", [("a", v)])
                else:
                    c = exec_case(len(cases), "-a", [("a", v)])
                cases.append(c)
                meta.append((form, v))
        for x in U64_BOUNDARY:
            cases.append(exec_case(len(cases), "-a", [("a", U(x))]))
            meta.append(('uvar', U(x)))
        out = drv.run(cases, "neg")
        for c, r, (form, v) in zip(cases, out, meta):
            res.evaluations += 1
            obs = top_outcome(r)
            if abs(v[1]) > (1 << 31):
                res.nt("neg|%s|%r" % (form, v))
            if form == 'uvar':
                # CEL has no uint negation: an error, or the exact value (only 0 has one)
                ok = obs[0] == 'err' or (obs[0] == 'ok' and v[1] == 0 and obs[1] in (U(0), I(0)))
                if not ok:
                    res.violation('wrong-value' if not is_crash(obs) else obs[0], "unary minus on uint",
                                  crash_sig(obs) if is_crash(obs) else 'value', c,
                                  expected="error", observed=fmt_outcome(obs))
                continue
            if form == 'paren':
                exp = ('err', 'overflow') if v[1] == I64_MIN else ('ok', ('b', True))
            else:
                exp = ('err', 'overflow') if v[1] == I64_MIN else ('ok', I(-v[1]))
            if not same_outcome(exp, obs):
                kindv = mismatch_kind(exp, obs)
                res.violation(kindv, "unary minus on int", crash_sig(obs) if is_crash(obs) else kindv, c,
                              expected=fmt_outcome(exp), observed=fmt_outcome(obs))
        res.exhaustive_done["neg"] = True
    elif kind == 'random':
        rng = rng_for(seed, 'C08', unit[1])
        n = 1500

        def rnd_i():
            m = rng.random()
            if m < 0.4:
                return rng.randint(I64_MIN, I64_MAX)
            if m < 0.8:
                bits = rng.randint(0, 63)
                x = rng.getrandbits(bits) if bits else 0
                return -x if rng.random() < 0.5 else x
            return rng.choice(I64_BOUNDARY) + rng.randint(-2, 2) if rng.random() < 0.5 else rng.choice(I64_BOUNDARY)

        def rnd_u():
            m = rng.random()
            if m < 0.4:
                return rng.randint(0, U64_MAX)
            if m < 0.8:
                bits = rng.randint(0, 64)
                return rng.getrandbits(bits) if bits else 0
            return rng.choice(U64_BOUNDARY)

        cases, meta = [], []
        for _ in range(n):
            if rng.random() < 0.5:
                a, b = I(max(I64_MIN, min(I64_MAX, rnd_i()))), I(max(I64_MIN, min(I64_MAX, rnd_i())))
            else:
                a, b = U(rnd_u()), U(rnd_u())
            form = rng.choice(('lit', 'var'))
            for op in ('/', '%', rng.choice(('+', '-', '*'))):
                cases.append(build(len(cases), op, a, b, form))
                meta.append((op, a, b, form))
        out = drv.run(cases, "rand")
        by_pair = {}
        for c, r, (op, a, b, form) in zip(cases, out, meta):
            obs = check_pair(res, c, r, op, a, b, form)
            by_pair.setdefault((a, b), {})[op] = (obs, c)
        # (a/b)*b + a%b == a, from the observed results only
        for (a, b), d in by_pair.items():
            if '/' in d and '%' in d and d['/'][0][0] == 'ok' and d['%'][0][0] == 'ok':
                q, m = d['/'][0][1][1], d['%'][0][1][1]
                res.count("div_identity_checked")
                if q * b[1] + m != a[1] or (m != 0 and (m < 0) != (a[1] < 0)) or abs(m) >= abs(b[1]):
                    res.violation('wrong-value', 'division identity', 'q*b+r!=a', d['/'][1],
                                  expected="(a/b)*b + a%%b == a, remainder has the dividend's sign",
                                  observed={"q": q, "r": m})
        res.sample({"src": cases[0]["src"], "vars": cases[0].get("vars")})
    elif kind == 'cross':
        rng = rng_for(seed, 'C08', 'cross')
        pool = ([I(x) for x in (0, 1, -1, 2, 7, I64_MAX, I64_MIN, 1 << 31)] +
                [U(x) for x in (0, 1, 2, 7, U64_MAX, 1 << 63)] +
                [D(x) for x in (0.0, 1.0, -1.0, 2.5, 1e300, float(1 << 53))])
        cases, meta = [], []
        for a in pool:
            for b in pool:
                if a[0] == b[0]:
                    continue
                for op in OPS:
                    for form in ('lit', 'var'):
                        cases.append(build(len(cases), op, a, b, form))
                        meta.append((op, a, b, form))
        out = drv.run(cases, "cross")
        for c, r, (op, a, b, form) in zip(cases, out, meta):
            res.evaluations += 1
            obs = top_outcome(r)
            res.nt("cross|%s|%s|%r|%r" % (form, op, a, b))
            res.count("cross:" + (obs[1] if obs[0] == 'err' else obs[0]))
            if not (obs[0] == 'err'):
                kindv = obs[0] if is_crash(obs) else ('value-instead-of-error' if obs[0] == 'ok' else 'wrong-error-class')
                res.violation(kindv, "mixed %s %s %s" % (a[0], op, b[0]),
                              crash_sig(obs) if is_crash(obs) else kindv, c,
                              expected="an error (no coercion)", observed=fmt_outcome(obs))
        res.exhaustive_done["cross"] = True
        res.sample({"src": cases[3]["src"], "vars": cases[3].get("vars")})


def recheck(cases, out, res):
    # replay support: re-derive operands from the case
    from celmodel.values import from_json
    for c, r in zip(cases, out):
        obs = top_outcome(r)
        print("observed outcome:", fmt_outcome(obs) if not is_crash(obs) else obs)
        if is_crash(obs):
            res.violation(obs[0], 'replay', crash_sig(obs), c)
        elif c.get("vars") and len(c["vars"]) == 2 and c["src"].startswith("a ") and c["src"].endswith(" b"):
            a, b = from_json(c["vars"][0][1]), from_json(c["vars"][1][1])
            op = c["src"][2:-2]
            exp = expected(op, a, b) if a[0] == b[0] else ('err', '*')
            print("expected outcome:", fmt_outcome(exp))
            if not same_outcome(exp, obs):
                res.violation(mismatch_kind(exp, obs), 'replay', 'replay', c)


def extra_stages(tier, seed, scratch, total, notes):
    """Thorough tier: the same sweeps against a plain release build of the driver (overflow checks off):
    where the checked build would panic, an unchecked build wraps silently - the value oracle sees it."""
    if tier != 'thorough':
        return
    import runner
    try:
        binary = runner.build_driver("release")
    except runner.Inconclusive as e:
        notes.append({"stage": "release-build", "result": "inconclusive: " + str(e)[:200]})
        return
    sub = [u for u in units('quick', seed) if u[0] in ('pairs', 'neg', 'cross')] + [('random', 100 + i) for i in range(8)]
    t = runner.run_units_with(__name__, sub, binary, os.path.join(scratch, "release"), seed, 'quick')
    notes.append({"stage": "release-build (overflow checks off)", "units": len(sub), "executions": t.evaluations,
                  "violations": len(t.violations)})
    t.observed = {"release:" + k: v for k, v in t.observed.items() if not isinstance(v, set)}
    total.merge(t)
