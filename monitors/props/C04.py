"""C04 — parsing preserves precedence, associativity and grouping."""
import itertools

from celmodel.values import I, U, D, S, B
from celmodel.expr import (render_min, render_full, expected_ast, flatten_logic, count_ops, node_depth, BINOPS)
from celmodel.gen import UntypedGen
from .common import rng_for, chunks, crash_sig
from celmodel.values import top_outcome

RULE = ("expression trees rendered fully and minimally parenthesised and parsed back (cel_parser::Parser::parse, "
        "public AST modulo node ids): exhaustively all trees with <= 2 (quick) / <= 3 (thorough) operators from "
        "the complete operator set (14 binary, 2 prefix, ?:, select, index, global / receiver calls, list and map "
        "literals, macros) over 2 leaf kinds, every && / || chain of length 2-64, every mixed chain of length <= 8, every chain of 3-20 (quick) / 3-64 (thorough) operands under one repeated or several same-level arithmetic / relational operators, ?: ladders and postfix chains to 24, each also nested as argument / element / macro body, "
        "every prefix run of length <= 6 over 7 operand kinds, random trees of depth <= 7; && / || chains are "
        "compared by operand sequence; non-trivial = tree with >= 2 operators or a chain / run of length >= 2; "
        "distinct = distinct (tree, rendering)")
ASSUMPTIONS = ["expected macro expansions are the shapes pinned by the repository's own parser test",
               "a single '-' directly before an int / double literal is the literal's sign (grammar rule `literal`)"]

BIN = list(BINOPS.keys())
# constructors: (name, arity, builder)
CONS = [('bin:' + op, 2, (lambda op: (lambda a, b: ('bin', op, a, b)))(op)) for op in BIN] + [
    ('un:!', 1, lambda a: ('un', '!', a)),
    ('un:-', 1, lambda a: ('un', '-', a)),
    ('cond', 3, lambda a, b, c: ('cond', a, b, c)),
    ('sel', 1, lambda a: ('sel', a, 'fld')),
    ('idx', 2, lambda a, b: ('idx', a, b)),
    ('call1', 1, lambda a: ('call', 'fn', [a])),
    ('call2', 2, lambda a, b: ('call', 'fn', [a, b])),
    ('mcall0', 1, lambda a: ('mcall', a, 'mth', [])),
    ('mcall1', 2, lambda a, b: ('mcall', a, 'mth', [b])),
    ('list1', 1, lambda a: ('list', [a])),
    ('list2', 2, lambda a, b: ('list', [a, b])),
    ('map1', 2, lambda a, b: ('map', [(a, b)])),
    ('has', 1, lambda a: ('has', a, 'fld')),
    ('all', 2, lambda a, b: ('macro', 'all', a, 'v', [b])),
    ('exists', 2, lambda a, b: ('macro', 'exists', a, 'v', [b])),
    ('exists_one', 2, lambda a, b: ('macro', 'exists_one', a, 'v', [b])),
    ('map2', 2, lambda a, b: ('macro', 'map', a, 'v', [b])),
    ('map3', 3, lambda a, b, c: ('macro', 'map', a, 'v', [b, c])),
    ('filter', 2, lambda a, b: ('macro', 'filter', a, 'v', [b])),
    ('struct1', 1, lambda a: ('struct', 'pkg.Msg', [('f', a)])),
]


def shapes(nops):
    """All constructor trees with exactly `nops` operators; leaves are None."""
    if nops == 0:
        return [None]
    out = []
    for ci, (name, ar, _) in enumerate(CONS):
        for split in itertools.product(range(nops), repeat=ar):
            if sum(split) != nops - 1:
                continue
            subs = [shapes(k) for k in split]
            for combo in itertools.product(*subs):
                out.append((ci,) + combo)
    return out


def count_shapes(nops):
    return len(shapes(nops))


def instantiate(sh, leafkinds):
    """leafkinds: iterator of 'id' / 'lit'; leaves get distinct names / values in source order."""
    counter = [0]

    def go(s):
        if s is None:
            counter[0] += 1
            k = next(leafkinds)
            if k == 'id':
                return ('id', 'a%d' % counter[0])
            return ('lit', I(counter[0]))
        ci = s[0]
        return CONS[ci][2](*[go(c) for c in s[1:]])
    return go(sh)


def units(tier, seed):
    us = [('ops', 1, 0, 1), ('chains',), ('mixed',), ('runs',), ('signed',), ('opchains', tier)]
    n2 = count_shapes(2)
    step = max(1, n2 // 24)
    for i in range(0, n2, step):
        us.append(('ops', 2, i, min(n2, i + step)))
    if tier == 'thorough':
        # exactly-3-operator trees: enumerated per root constructor
        for ci in range(len(CONS)):
            us.append(('ops3', ci))
    for i in range(16 if tier == 'quick' else 480):
        us.append(('random', i))
    return us


def compare(res, case, rec, e, family):
    res.evaluations += 1
    if isinstance(rec, dict) and any(k in rec for k in ('panic', 'abort', 'hang')):
        o = top_outcome(rec)
        res.violation(o[0], 'parse: ' + family, crash_sig(o), case, observed=list(o))
        return
    if not isinstance(rec, dict) or ('ast' not in rec and 'errs' not in rec):
        res.inconclusive.append("parse record: " + str(rec)[:200])
        return
    if 'errs' in rec:
        res.count("outcome:rejected")
        res.violation('rejected', 'parse: ' + family, 'valid rendering rejected', case,
                      expected="parses to the tree it was rendered from", observed=rec.get('all', '')[:300])
        return
    res.count("outcome:parsed")
    exp = flatten_logic(expected_ast(e))
    got = flatten_logic(rec['ast'])
    if exp != got:
        res.violation('wrong-tree', 'parse: ' + family, 'tree differs', case, expected=exp, observed=got)


def run_items(res, drv, items, tag):
    for part in chunks(items, 5000):
        cases = [{"id": i, "op": "parse", "src": src} for i, (src, e, fam, nt) in enumerate(part)]
        out = drv.run(cases, tag)
        for c, r, (src, e, fam, nt) in zip(cases, out, part):
            compare(res, c, r, e, fam)
            if nt:
                res.nt(src)
            res.count("family:" + fam)
        if part:
            res.sample({"src": part[len(part) // 2][0][:300], "family": part[len(part) // 2][2]}, cap=1)


def both_renderings(e, fam, nt, rng=None):
    out = []
    try:
        out.append((render_min(e), e, fam + '/min', nt))
        out.append((render_full(e), e, fam + '/full', nt))
        if rng is not None:
            out.append((render_min(e, rng, 0.3), e, fam + '/noisy', nt))
    except ValueError:
        pass
    return out


def run_unit(unit, drv, res, seed, tier):
    kind = unit[0]
    rng = rng_for(seed, 'C04', *unit)
    items = []
    if kind == 'ops':
        nops = unit[1]
        shs = shapes(nops)[unit[2]:unit[3]] if nops > 1 else shapes(1)
        for sh in shs:
            for pattern in (itertools.repeat('id'), itertools.cycle(['id', 'lit']), itertools.cycle(['lit', 'id'])):
                e = instantiate(sh, iter(pattern))
                items += both_renderings(e, 'ops%d' % nops, nops >= 2)
        run_items(res, drv, items, 'ops')
        res.exhaustive_done['trees-%d-operators' % nops] = True
    elif kind == 'ops3':
        ci = unit[1]
        name, ar, build = CONS[ci]
        subs_by_n = {0: shapes(0), 1: shapes(1), 2: shapes(2)}
        for split in itertools.product(range(3), repeat=ar):
            if sum(split) != 2:
                continue
            for combo in itertools.product(*[subs_by_n[k] for k in split]):
                sh = (ci,) + combo
                pat = rng.choice([itertools.repeat('id'), itertools.cycle(['id', 'lit']), itertools.cycle(['lit', 'id'])])
                e = instantiate(sh, iter(pat))
                items += both_renderings(e, 'ops3', True)
                if len(items) >= 20000:
                    run_items(res, drv, items, 'ops3')
                    items = []
        run_items(res, drv, items, 'ops3')
        res.exhaustive_done['trees-3-operators'] = True
    elif kind == 'chains':
        for op in ('&&', '||'):
            for n in range(2, 65):
                e = ('id', 'a0')
                for i in range(1, n):
                    e = ('bin', op, e, ('id', 'a%d' % i))
                items.append((render_min(e), e, 'chain' + op, True))
                # right-nested model tree rendered with explicit parentheses
                if n <= 12:
                    r = ('id', 'a%d' % (n - 1))
                    for i in range(n - 2, -1, -1):
                        r = ('bin', op, ('id', 'a%d' % i), r)
                    items.append((render_full(r), r, 'chain' + op + '/right-nested', True))
        run_items(res, drv, items, 'chains')
        res.exhaustive_done['logic-chains-2-64'] = True
    elif kind == 'mixed':
        for n in range(2, 9):
            for ops in itertools.product(['&&', '||'], repeat=n - 1):
                names = ['a%d' % i for i in range(n)]
                src = names[0] + ''.join(' %s %s' % (o, nm) for o, nm in zip(ops, names[1:]))
                # model: || of && groups
                groups, cur = [], [('id', names[0])]
                for o, nm in zip(ops, names[1:]):
                    if o == '&&':
                        cur.append(('id', nm))
                    else:
                        groups.append(cur)
                        cur = [('id', nm)]
                groups.append(cur)

                def fold(xs, op):
                    e = xs[0]
                    for x in xs[1:]:
                        e = ('bin', op, e, x)
                    return e
                e = fold([fold(g, '&&') for g in groups], '||')
                items.append((src, e, 'mixed-chain', True))
        run_items(res, drv, items, 'mixed')
        res.exhaustive_done['mixed-chains-le-8'] = True
    elif kind == 'opchains':
        # every left-associative level as unparenthesised chains far longer than the exhaustive trees reach:
        # one operator repeated, and operators of one level mixed; plus the right-associative ?: ladder, the
        # postfix chains, and the same chains as call arguments / list elements / macro bodies
        top = 20 if unit[1] == 'quick' else 64
        levels = [['+', '-'], ['*', '/', '%'], ['==', '!=', '<', '<=', '>', '>=', 'in']]

        def leaf(i):
            return ('id', 'a%d' % i) if i % 3 else ('lit', I(i + 1))

        def wrapd(e, fam):
            items.append((render_min(e), e, fam, True))
            for w in (('call', 'fn', [e, ('id', 'z')]), ('list', [('id', 'z'), e]), ('macro', 'map', ('id', 'l'), 'v', [e]),
                      ('cond', ('id', 'c'), e, e), ('mcall', ('id', 'r'), 'mth', [e]), ('map', [(('id', 'k'), e)])):
                items.append((render_min(w), w, fam + '/nested', True))
        for lv in levels:
            for n in range(3, top + 1):
                for op in lv:
                    e = leaf(0)
                    for i in range(1, n):
                        e = ('bin', op, e, leaf(i))
                    if n <= 12 or n % 4 == 0 or op == lv[0]:
                        wrapd(e, 'opchain' + op)
                for _ in range(3):
                    e = leaf(0)
                    for i in range(1, n):
                        e = ('bin', rng.choice(lv), e, leaf(i))
                    wrapd(e, 'opchain-mixed-level')
        for n in range(2, min(top, 24) + 1):
            # else-ladder: c1 ? x1 : c2 ? x2 : ... : y   (right-associative)
            e = leaf(3 * n)
            for i in range(n - 1, -1, -1):
                e = ('cond', ('id', 'c%d' % i), leaf(i), e)
            wrapd(e, 'cond-ladder')
            # then-ladder needs no parentheses either: c1 ? c2 ? x : y : z
            e = leaf(0)
            for i in range(n):
                e = ('cond', ('id', 'c%d' % i), e, leaf(i + 1))
            wrapd(e, 'cond-then-ladder')
            # postfix chains
            e = ('id', 'a')
            for i in range(n):
                k = (i + n) % 3
                e = ('sel', e, 'f%d' % i) if k == 0 else ('idx', e, leaf(i)) if k == 1 else ('mcall', e, 'm%d' % i, [leaf(i)])
            wrapd(e, 'postfix-chain')
        run_items(res, drv, items, 'opchains')
        res.exhaustive_done['same-level-operator-chains-3-%d' % top] = True
    elif kind == 'runs':
        operands = [('id', 'a'), ('bin', '+', ('id', 'a'), ('id', 'b')), ('lit', I(5)), ('lit', D(2.5)), ('lit', U(3)),
                    ('lit', S("s")), ('call', 'f', [('id', 'x')]), ('mcall', ('id', 'a'), 'm', []), ('sel', ('id', 'a'), 'b'),
                    ('lit', B(True)), ('idx', ('id', 'a'), ('lit', I(0)))]
        for op in '!-':
            for k in range(0, 7):
                for x in operands:
                    e = ('run', op, k, x)
                    items.append((render_min(e), e, 'run' + op, k >= 2))
                    # the run nested in contexts
                    w = ('bin', '-', ('id', 'z'), e)
                    items.append((render_min(w), w, 'run-in-sub', True))
                    w = ('list', [e, ('bin', '*', e, ('id', 'y'))])
                    items.append((render_min(w), w, 'run-in-mul', True))
        run_items(res, drv, items, 'runs')
        res.exhaustive_done['prefix-runs-le-6'] = True
    elif kind == 'signed':
        vals = [('lit', I(-1)), ('lit', I(-9223372036854775808)), ('lit', D(-2.5)), ('lit', I(7)), ('lit', D(0.5))]
        for v in vals:
            for ctx in (lambda x: x, lambda x: ('bin', '-', ('id', 'a'), x), lambda x: ('bin', '-', x, ('id', 'a')),
                        lambda x: ('un', '-', x), lambda x: ('un', '!', x), lambda x: ('mcall', x, 'm', []),
                        lambda x: ('sel', x, 'f'), lambda x: ('idx', x, x), lambda x: ('bin', '*', x, x),
                        lambda x: ('cond', x, x, x), lambda x: ('call', 'f', [x, x]), lambda x: ('un', '-', ('mcall', x, 'm', [])),
                        lambda x: ('un', '-', ('idx', x, ('lit', I(0))))):
                e = ctx(v)
                items += both_renderings(e, 'signed-literals', True)
        run_items(res, drv, items, 'signed')
        res.exhaustive_done['signed-literal-contexts'] = True
    elif kind == 'random':
        lits = [I(0), I(1), I(42), U(7), D(1.5), S("s"), S(""), B(True), B(False), ('n',), ('y', b"ab"), I(-3), D(-0.25)]
        for _ in range(1500):
            g = UntypedGen(rng, idents=["a", "b", "c", "x", "y", "m"], funcs=["f", "g", "size", "mth"], lit_values=lits)
            e = g.gen(rng.choice([2, 3, 4, 5, 6, 7]))
            items += both_renderings(e, 'random', count_ops(e) >= 2, rng if rng.random() < 0.3 else None)
        run_items(res, drv, items, 'random')


def recheck(cases, out, res):
    for c, r in zip(cases, out):
        print("observed:", str(r)[:1500])
