"""C05 — execution is pure, repeatable and safe to share across threads."""
import json
import os
import shutil
import subprocess
import time

from celmodel.values import (I, U, D, S, Y, B, L, M, NULL, to_json, from_json, canon, top_outcome, outcome, is_crash)
from celmodel.gen import TypedGen, rnd_int, rnd_string
from celmodel.expr import render_min
from .common import rng_for, crash_sig, chunks, fmt_outcome, norm_log

RULE = ("sequential histories: one root context (list, string, bytes, map, int variables whose buffers the driver "
        "tracks through weak handles, optionally also holding its own Arc) and up to 50 executions of generated programs "
        "favouring x + [..], [..] + x, s + s, macros over x, literals embedding x, programs returning x, regex matches "
        "with literal patterns, failing programs (incl. literals with several failing or logging entries), temporaries of equal byte length but different character counts measured back to back, deep programs, and histories that select / test / index 36-47 distinct field, key and variable names before returning to the first ones; after every execution: context snapshot unchanged, "
        "buffer identity, reference counts conserved, every earlier result unchanged, program Debug unchanged, and the "
        "result equal to the same program run against the same context again, against a freshly built equal context, "
        "and alone in a fresh thread (solo baseline). Concurrent histories: a shared program set and root context "
        "executed by 2-16 threads in inner scopes of their own with seeded yields inside host functions; every recorded "
        "result and call log must equal the solo result. non-trivial = history in which a program reads a shared "
        "buffer and builds a new collection from it / concurrent run with in-flight overlap >= 2; distinct = distinct "
        "history or concurrent configuration")
ASSUMPTIONS = ["programs whose result depends on map iteration order are generated in order-insensitive forms only",
               "static precondition: Program, Context, Value, ExecutionError are Send + Sync (probe crate compiled first)",
               "a clean sanitizer run means no report on the executions made, not memory safety"]

SCOPE = {'x': ('list', 'int'), 'xs': ('list', 'string'), 's': 'string', 'y': 'bytes', 'm': ('map', 'string', 'int'), 'n': 'int',
         'l2': ('list', ('list', 'int'))}

TEMPLATES = [
    "x + [1, 2]", "[0] + x", "x + x", "(x + [n]) + x", "x + x.map(e, e + n)", "s + s", "s + 'suffix'", "'pre' + s + s",
    "x.map(e, e * 2)", "x.filter(e, e > 1)", "x.map(e, x.map(f, e + f))", "x.all(e, e in x)", "l2.map(r, r + x)",
    "l2.map(r, r + [n]).map(r, size(r))", "x", "[x, x]", "{'k': x, 'j': s}", "[x + [1], x]", "m", "{'a': m, 'b': [m]}",
    "xs + xs", "xs.map(e, e + s)", "xs + [s]", "[s] + xs + [s + s]", "l2 + [x]", "l2 + l2", "(l2 + [x])[0] + x",
    "s.matches('^a')", "s.matches('^b')", "s.matches('b$')", "xs.exists(e, e.matches('^z'))", "'abc'.matches('^a')", "'abc'.matches('^b')",
    "'abc'.matches('c$')", "'abc'.matches('^c')", "s.matches('a') || s.matches('z')", "xs.filter(e, e.matches('[0-9]'))",
    "1 / 0", "x.map(e, e / 0)", "x[0] + s", "nosuch + 1", "[1, 2, 3].map(e, e / 0)", "m.missing", "x.map(e, [e].map(f, f / (e - e)))",
    "9223372036854775807 + n", "[[1, 2], [3]].map(r, r.map(e, e / (e - 3)))", "int('zz')", "x.map(e, uint(e - 100))",
    " + ".join(["n"] * 90), "(" * 40 + "n" + ")" * 40, "[" * 30 + "x" + "]" * 30, " + ".join(["x"] * 30), " && ".join(["n == n"] * 70),
    "t(1, x) + t(2, [n])", "x.map(e, t(e, e + 1))", "t(0, s) + t(1, s)", "size(x + x)", "x.contains(n)", "string(n) + s",
    "y", "[y, y]", "size(y)", "string(y) + s", "bytes(s) == y", "m.map(k, k + s).all(e, e.contains(s))", "m.all(k, m[k] >= 0 || true)",
    "x + [n] == x + [n]", "x == x", "(x + [1]).size() == x.size() + 1", "has(m.a) ? m.a : n", "m.exists(k, k == s)",
    # several failing / logging operands in one literal or call: which one wins must not vary between executions
    "{0: 10 / 0, 1: 11 / 0, 2: 12 / 0, 3: 13 / 0, 4: 14 / 0, 5: 15 / 0, 6: 16 / 0, 7: 17 / 0}", "{'a': x + 1, 'b': 1 % 0, 'c': 's' - 1, 'd': nosuch}",
    "[10 / 0, 11 % 0, nosuch, 's' - 1]", "{0: t(0, 1), 1: t(1, 2), 2: t(2, 3), 3: t(3, 4), 4: t(4, 5)}", "{t(0, 'a'): 1, t(1, 'b'): 2, t(2, 'c'): 3}.size()",
    "{1 / 0: 1, 2 % 0: 2, nosuch: 3}", "[t(1, 1), t(2, 2), t(3, 3)].map(e, {e: t(e + 10, e), e + 100: t(e + 20, e)}).size()",
    # temporaries of equal byte length and different character counts measured one after the other
    "size('aaaaaaaaaaaaaaaaaaaa')", "size('éééééééééé')", "size('日日日日日日aa')", "size('𝄞𝄞𝄞𝄞𝄞')", "size('aaaaaaaaaaaaaaaaaaaa') + size('éééééééééé')",
    "size('abcdefghij-' + 'abcdefghijk')", "size('abcdefghij-' + 'àbçdéfgh')", "['abcdefghijk', 'àbçdéfgh', 'abçdefghij', '日本語ab'].map(e, size('abcdefghij-' + e))",
    "['aaaaaaaaaaaaaaaa', 'éééééééé', 'aaaaaaaaaaaaaaaa', '𝄞𝄞𝄞𝄞'].map(e, size(e + e))", "size(s + 'abcdefghijklmnop') + size('àbçdéfghijkl' + s)",
    "string(bytes('éééééééééé')).size() + string(bytes('aaaaaaaaaaaaaaaaaaaa')).size()",
]


def make_ctx(rng):
    return [
        ("x", L([I(rng.randint(-3, 9)) for _ in range(rng.randint(0, 5))])),
        ("xs", L([S(rng.choice(["a", "ab", "z1", "", "é", "abc"])) for _ in range(rng.randint(0, 4))])),
        ("s", S(rng.choice(["abc", "", "a", "zab", "héllo", "b"]))),
        ("y", Y(rng.choice([b"", b"abc", b"\xff\x00", "é".encode()]))),
        ("m", M([(S(k), I(rng.randint(0, 5))) for k in rng.sample(["a", "b", "c", "abc"], rng.randint(0, 3))])),
        ("n", I(rng.randint(-2, 5))),
        ("l2", L([L([I(rng.randint(0, 3)) for _ in range(rng.randint(0, 3))]) for _ in range(rng.randint(0, 3))])),
    ]


def random_program(rng):
    g = TypedGen(rng, max_depth=rng.choice([2, 3, 4]))
    g.scope = dict(SCOPE)
    g.map_ranges = False     # order-insensitive forms only (the property's own carve-out)
    t = rng.choice([('list', 'int'), ('list', 'string'), 'string', 'int', 'bool', ('list', ('list', 'int'))])
    e = g.gen(t, g.max_depth)
    try:
        src = render_min(e)
    except ValueError:
        return None
    return src


def units(tier, seed):
    us = []
    for i in range(16 if tier == 'quick' else 320):
        us.append(('history', i))
    for i in range(6 if tier == 'quick' else 128):
        us.append(('conc', i))
    return us


def canon_res(j):
    """Canonical form of an encoded result (maps as sets, NaN payload ignored, error fields kept)."""
    if isinstance(j, dict) and 'ok' in j:
        return 'ok:' + canon(from_json(j['ok']))
    if isinstance(j, dict) and 'err' in j:
        return 'err:' + j['err'] + ':' + json.dumps(norm_log(j.get('f')), sort_keys=True)
    return json.dumps(j, sort_keys=True)


def check_history(res, case, rec, cross):
    if not (isinstance(rec, dict) and 'steps' in rec):
        o = top_outcome(rec, 'steps')
        if is_crash(o):
            res.violation(o[0], 'sequential history', crash_sig(o), case, observed=list(o))
        elif isinstance(rec, dict) and 'compile_err' in rec:
            res.count("history:compile_err")
        else:
            res.inconclusive.append("history: " + str(rec)[:200])
        return
    progs = case["progs"]
    solo = rec.get("solo", [])
    vkey = json.dumps(case["vars"], sort_keys=True)
    builds = False
    for st in rec["steps"]:
        res.evaluations += 1
        src = progs[st["prog"]]
        if any(w in src for w in ("x +", "+ x", "s +", "+ s", ".map(", ".filter(", "[x", "l2 +", "xs +")):
            builds = True

        def bad(kind, beh, exp=None, obs=None):
            res.violation(kind, 'sequential history', beh, case, expected=exp,
                          observed={"step": st["k"], "program": src, "detail": obs})

        if not st["snap_same"]:
            bad('context-changed', 'a context variable changed after an execution', rec["snap0"], st.get("snap"))
        # buffer identity and reference-count conservation are recorded as observations only: the statement
        # speaks about values, and a correct implementation may legitimately keep or swap references
        if not all(st["same_buf"]):
            res.count("observation:buffer-replaced")
        if st["counts_before"] != st["counts_after"]:
            res.count("observation:refcount-drift")
        if st["changed_earlier"]:
            bad('earlier-value-changed', 'a value obtained earlier changed', None, st["changed_earlier"][:2])
        if not st["dbg_same"]:
            bad('program-changed', 'Debug rendering of a program changed', None, None)
        c1, c2, c3 = canon_res(st["r1"]), canon_res(st["r2"]), canon_res(st["r3"])
        for r in (st["r1"], st["r2"], st["r3"]):
            if isinstance(r, dict) and 'panic' in r:
                bad('panic', crash_sig(outcome(r)), None, r)
        if c1 != c2:
            bad('not-repeatable', 'the same program against the same context gave a different result', st["r1"], st["r2"])
        if c1 != c3:
            bad('not-repeatable', 'an equal, freshly built context gave a different result', st["r1"], st["r3"])
        if st["prog"] < len(solo) and isinstance(solo[st["prog"]], dict) and 'res' in solo[st["prog"]]:
            so = solo[st["prog"]]
            if canon_res(so["res"]) != c1:
                bad('history-dependent', 'result differs from the solo run in a fresh thread', so["res"], st["r1"])
            elif norm_log(so["log"]) != norm_log(st["log"]):
                bad('history-dependent', 'host-call log differs from the solo run', so["log"], st["log"])
        # across histories of this unit: one outcome per (context, program)
        key = (vkey, src)
        prev = cross.setdefault(key, c1)
        if prev != c1:
            bad('history-dependent', 'result differs between two histories over equal contexts', prev, c1)
        res.count("executions", 3)
    if builds and len(rec["steps"]) >= 2:
        res.nt(vkey + json.dumps(case["progs"]) + json.dumps(case["seq"]))
    res.count("histories")
    res.count("history_steps", len(rec["steps"]))


def check_conc(res, case, rec):
    if not (isinstance(rec, dict) and 'ops' in rec):
        o = top_outcome(rec, 'ops')
        if is_crash(o):
            res.violation(o[0], 'concurrent history', crash_sig(o), case, observed=list(o))
        elif isinstance(rec, dict) and 'compile_err' in rec:
            res.count("conc:compile_err")
        else:
            res.inconclusive.append("conc: " + str(rec)[:200])
        return
    res.evaluations += rec["ops"]
    res.count("concurrent_runs")
    res.count("concurrent_ops", rec["ops"])
    res.see("threads", rec["threads"])
    res.see("max_overlap", rec["max_overlap"])
    res.see("interleaving_signatures", rec["interleaving_sig"])
    res.count("overlapping_program_pairs", rec["overlap_pairs"])
    if rec["max_overlap"] >= 2:
        res.nt(json.dumps(case["progs"]) + str(case["threads"]) + str(case["seed"]) + rec["interleaving_sig"])
    if rec["panicked_threads"]:
        res.violation('panic', 'concurrent history', 'a worker thread panicked', case, observed=rec["panicked_threads"])
    for mm in rec["mismatches"][:3]:
        res.violation('concurrent-differs-from-solo', 'concurrent history', 'a concurrent execution differs from what it yields alone', case,
                      expected={"solo": mm["solo"], "solo_log": mm["solo_log"]},
                      observed={"program": case["progs"][mm["prog"]], "thread": mm["thread"], "seq": mm["seq"], "conc": mm["conc"], "conc_log": mm["conc_log"]})
    if not rec["snap_same"]:
        res.violation('context-changed', 'concurrent history', 'the shared root context changed', case)
    if rec["counts0"] != rec["counts1"]:
        res.count("observation:refcount-drift")
    if not all(rec["same_buf"]):
        res.count("observation:buffer-replaced")


CONC_TEMPLATES = TEMPLATES + [
    "x + [tid, k]", "mine + x", "x.map(e, e + tid)", "t(tid, x) + t(k, mine)", "[tid].map(i, x.map(e, t(e, e + i + k)))", "s + string(tid)",
    "mine.map(e, t(e, x)).size() == 2", "x.map(e, t(tid, e)).filter(e, e > k)", "{'t': tid, 'x': x + mine}", "l2.map(r, t(k, r + mine))",
    "xs.map(e, t(tid, e + s))", "t(tid, s).matches('^a') || t(k, true)", "k % 2 == 0 ? x + mine : mine + x", "(x + mine) == (x + [tid, k])",
]


def run_unit(unit, drv, res, seed, tier):
    kind = unit[0]
    rng = rng_for(seed, 'C05', *unit)
    if kind == 'history':
        cases = []
        for h in range(25):
            ctx = make_ctx(rng)
            progs = rng.sample(TEMPLATES, rng.randint(6, 14))
            # fresh regex patterns in every history, ill-formed ones among them (process-wide caches)
            for _ in range(6):
                i = rng.randint(0, 400)
                progs.append(rng.choice(["'abc%d'.matches('^abc%d$')" % (i, i), "s.matches('a{%d}')" % (i % 50), "s.matches('(')",
                                         "xs.exists(e, e.matches('[a-z]{%d}'))" % (1 + i % 20), "s.matches('[z-a]')", "'q%d'.matches('q%d|r')" % (i, i)]))
            for _ in range(rng.randint(0, 6)):
                p = random_program(rng)
                if p:
                    progs.append(p)
            seq = [rng.randrange(len(progs)) for _ in range(rng.choice([10, 25, 50]))]
            # make sure failing executions are followed by good ones and vice versa
            cases.append({"id": h, "op": "history", "vars": [[n, to_json(v)] for n, v in ctx], "progs": progs, "seq": seq,
                          "opts": {"hold": rng.random() < 0.5}})
        # histories that touch many distinct names (fields, variables, keys, has() tests) and then come back
        # to the first ones: bounded per-thread / per-process tables keyed by name must not change any result
        for h in range(25, 31):
            ctx = make_ctx(rng)
            K = rng.choice([36, 40, 44, 47])
            mode = ['select', 'one-form', 'mixed'][h % 3]
            one_form = None
            names = [rng.choice(['f', 'k_', 'Field', 'z']) + '%d_%d' % (h, i) for i in range(K)]
            ctx.append(("big", M([(S(nm), I(1000 + i)) for i, nm in enumerate(names)])))
            for i, nm in enumerate(names[:K // 2]):
                ctx.append((nm, I(2000 + i)))
            progs = []
            for i, nm in enumerate(names):
                forms = ["big.%s", "big.%s + n", "has(big.%s)", "big['%s']", "{'%s': n}.%s", "[big].map(e, e.%s)", "big.%s == big['%s']",
                         "has(big.%s) ? big.%s : n", "'%s' in big", "big.map(k, k == '%s').exists(b, b)"]
                if i < K // 2:
                    forms += ["%s + n", "[%s, n]", "big.%s - %s"]
                if mode == 'select':
                    f = "big.%s"
                elif mode == 'one-form':
                    one_form = one_form or rng.choice(forms[:10])
                    f = one_form
                else:
                    f = rng.choice(forms)
                progs.append(f.replace('%s', nm))
            first = list(range(K))
            if rng.random() < 0.5:
                rng.shuffle(first)
            seq = (first + first[:50 - K])[:50]
            cases.append({"id": h, "op": "history", "vars": [[n, to_json(v)] for n, v in ctx], "progs": progs, "seq": seq,
                          "opts": {"hold": False, "notrack": True}})
        out = drv.run(cases, 'history', watchdog=120)
        cross = {}
        for c, r in zip(cases, out):
            check_history(res, c, r, cross)
        res.sample({"vars": cases[0]["vars"], "progs": cases[0]["progs"][:6], "seq": cases[0]["seq"][:12]}, cap=1)
    else:
        cases = []
        for h in range(6):
            ctx = make_ctx(rng)
            progs = rng.sample(CONC_TEMPLATES, rng.randint(5, 12))
            threads = rng.choice([2, 4, 8, 16])
            cases.append({"id": h, "op": "conc", "vars": [[n, to_json(v)] for n, v in ctx], "progs": progs, "threads": threads,
                          "ops": rng.choice([50, 100, 200]), "seed": rng.getrandbits(32) | 1, "perturb": rng.random() < 0.8})
        out = drv.run(cases, 'conc', watchdog=180)
        for c, r in zip(cases, out):
            check_conc(res, c, r)
        res.sample({"progs": cases[0]["progs"][:5], "threads": cases[0]["threads"], "ops": cases[0]["ops"]}, cap=1)


# ---- static precondition + sanitizer stages --------------------------------------------------------------

def prebuild(res, notes):
    """Compile the Send + Sync probe crate against /repo's working tree. A compile error that names
    Send / Sync is reported as a C05 violation; any other build failure is inconclusive."""
    import runner
    runner._alt_repo()
    d = os.path.join(runner.HARNESS, "sendsync")
    p = subprocess.run(["cargo", "check", "--offline", "--target-dir", runner.TARGET], cwd=d, env=runner.cargo_env(),
                       stdout=subprocess.PIPE, stderr=subprocess.STDOUT, text=True)
    if p.returncode == 0:
        notes.append({"stage": "send-sync-probe", "result": "compiles: Program, Context, Value, ExecutionError are Send + Sync"})
        return True
    text = p.stdout
    if 'cannot be shared between threads safely' in text or 'cannot be sent between threads safely' in text or '`Sync`' in text or '`Send`' in text:
        res.violation('not-send-sync', 'static precondition', 'a shared type is no longer Send + Sync',
                      {"op": "cargo check", "crate": "harness/sendsync"}, observed=text[-1500:])
        notes.append({"stage": "send-sync-probe", "result": "does not compile (Send / Sync)"})
        return False
    raise runner.Inconclusive("send-sync probe failed to build for another reason:\n" + text[-800:])


def _miri_worker(args):
    """One Miri process: a reduced concurrent + sequential workload over pre-parsed ASTs."""
    import runner
    cases, scratch, mseed, harness, tdir = args
    env = runner.cargo_env()
    env["MIRIFLAGS"] = "-Zmiri-disable-isolation -Zmiri-seed=%d" % mseed
    env["CELMON_STACK_MB"] = "16"
    wrapper = ["cargo", "+nightly", "miri", "run", "--offline", "--target-dir", tdir, "--"]
    drv = runner.Driver(None, scratch, env=env, wrapper=wrapper, cwd=harness)
    res = runner.UnitResult()
    try:
        out = drv.run(cases, "miri", watchdog=1500)
    except runner.Inconclusive as e:
        res.inconclusive.append("miri: " + str(e)[:300])
        return res
    cross = {}
    for c, r in zip(cases, out):
        if c["op"] == "conc":
            check_conc(res, c, r)
        elif c["op"] == "history":
            check_history(res, c, r, cross)
        else:
            res.evaluations += 1
            o = top_outcome(r) if c["op"] == "exec" else outcome(r if isinstance(r, dict) and ('abort' in r or 'panic' in r) else {"ok": {"n": 0}})
            if is_crash(o):
                res.violation(o[0], 'compile / execute under Miri', crash_sig(o), c, observed=list(o)[:2] + [str(o[2:])[:600]])
            res.count("program_path_cases")
    res.inconclusive.extend(drv.inconclusive)
    return res


def extra_stages(tier, seed, scratch, total, notes):
    """Thorough tier: the concurrent workload under ThreadSanitizer, and a reduced workload under Miri
    (several scheduler seeds as parallel processes; programs handed over as pre-parsed ASTs)."""
    if tier != 'thorough':
        return
    import runner
    from concurrent.futures import ProcessPoolExecutor
    # --- ThreadSanitizer
    try:
        binary, env, note = runner.build_variant('tsan')
        sub = [('conc', 1000 + i) for i in range(12)] + [('history', 1000 + i) for i in range(2)]
        t = runner.run_units_with(__name__, sub, binary, os.path.join(scratch, "tsan"), seed + 2000, 'quick', env=env, jobs=4)
        notes.append({"stage": "tsan", "build": note, "units": len(sub), "executions": t.evaluations,
                      "threads_seen": sorted(t.observed.get("threads", [])), "max_overlap_seen": sorted(t.observed.get("max_overlap", [])),
                      "sanitizer_reports": sum(1 for v in t.violations if 'Sanitizer' in v["sig"][2]),
                      "statement": "no ThreadSanitizer report on these executions" if not any('Sanitizer' in v["sig"][2] for v in t.violations) else "ThreadSanitizer reported (see violations)"})
        t.observed = {"tsan:" + k: v for k, v in t.observed.items()}
        total.merge(t)
    except runner.Inconclusive as e:
        notes.append({"stage": "tsan", "result": "inconclusive (toolchain): " + str(e)[:300]})
    # --- Miri
    try:
        runner._alt_repo()
        native = runner.Driver(runner.build_driver("mon"), os.path.join(scratch, "miri-prep"))
        rng = rng_for(seed, 'C05', 'miri')
        srcs = ["x + [tid, k]", "mine + x", "x.map(e, e + tid)", "t(tid, x) + t(k, mine)", "s + s", "x + x", "[x, x]", "{'k': x, 'j': s}",
                "x.filter(e, e > k)", "1 / 0", "x.map(e, e / 0)", "xs + [s]", "l2.map(r, r + x)", "x == x", "size(x + mine)"]
        parsed = native.run([{"id": i, "op": "parse", "src": s_} for i, s_ in enumerate(srcs)], "parse")
        asts = [p["ast"] for p in parsed if isinstance(p, dict) and "ast" in p]
        if len(asts) != len(srcs):
            raise runner.Inconclusive("could not pre-parse the Miri programs")
        jobs = []
        tdir = runner.TARGET + "-miri"
        for m in range(8):
            ctx = make_ctx(rng)
            cases = [{"id": 0, "op": "conc", "vars": [[n, to_json(v)] for n, v in ctx], "progs": srcs, "asts": asts,
                      "threads": 2 + (m % 2), "ops": 6, "seed": rng.getrandbits(32) | 1, "perturb": True},
                     {"id": 1, "op": "history", "vars": [[n, to_json(v)] for n, v in ctx], "progs": srcs[4:], "asts": asts[4:],
                      "seq": [rng.randrange(len(srcs) - 4) for _ in range(8)], "opts": {"hold": m % 2 == 0}}]
            if m == 0:
                # the Program path itself (ANTLR front end under Miri: slow, so only two sources)
                cases.append({"id": 2, "op": "exec", "src": "x + [1]", "vars": [[n, to_json(v)] for n, v in ctx]})
                cases.append({"id": 3, "op": "compile", "src": "1 +"})
            jobs.append((cases, os.path.join(scratch, "miri%d" % m), 1 + m, runner.HARNESS, tdir))
        t0 = time.time()
        # first process alone (builds the Miri sysroot / crate), then the rest in parallel
        first = _miri_worker(jobs[0])
        results = [first]
        with ProcessPoolExecutor(max_workers=7) as ex:
            results += list(ex.map(_miri_worker, jobs[1:]))
        mt = runner.UnitResult()
        for r in results:
            mt.merge(r)
        notes.append({"stage": "miri", "processes": len(jobs), "scheduler_seeds": [j[2] for j in jobs], "executions": mt.evaluations,
                      "wall_s": round(time.time() - t0, 1), "reports": len(mt.violations), "inconclusive": mt.inconclusive[:3],
                      "statement": "no undefined behaviour or data race reported by Miri on these executions" if not mt.violations else "Miri reported (see violations)"})
        mt.observed = {"miri:" + k: v for k, v in mt.observed.items()}
        total.merge(mt)
    except runner.Inconclusive as e:
        notes.append({"stage": "miri", "result": "inconclusive (toolchain): " + str(e)[:300]})


def recheck(cases, out, res):
    cross = {}
    for c, r in zip(cases, out):
        print("observed:", str(r)[:1500])
        if c.get("op") == "history":
            check_history(res, c, r, cross)
        elif c.get("op") == "conc":
            check_conc(res, c, r)
