"""C07 — each operand is evaluated at most once, left to right, in bounded work."""
import json
from celmodel.values import I, U, D, S, B, L, top_outcome, is_crash
from celmodel.refeval import all_outcomes, Unsupported
from celmodel.hostmodel import make_host
from celmodel.expr import render_min, render_full, count_ops, node_depth
from celmodel.gen import TypedGen
from .common import (exec_case, rng_for, same_outcome, mismatch_kind, fmt_outcome, crash_sig, chunks, norm_log)

RULE = ("programs (depth <= 10) in which leaves and calls are wrapped by the logging identity host function "
        "t(tag, v): typed random programs over operators, literals, index/select, built-ins and host "
        "functions of every extractor kind in both call styles with 0-4+ arguments, macros; dedicated chains "
        "f(f(...f(t(0,1)))) of depth 1-10 per 1-argument function, 2-argument chains in either position, "
        "receiver chains; every construct (each binary / unary operator, ?:, `in` against list literals of 1-5 elements / list and map operands, == chains, has() and select paths of depth 1-4 incl. absent fields, indexing, literals, built-ins in both call styles, every macro's range) with each operand slot filled by 7 operand shapes that bury the logging call (direct, under a select, an index, a two-level select, a map index, a conditional, a macro range); observed: ordered host-call log (must equal the reference log exactly) and the "
        "resolve-step counter (must stay <= 4*N_ref + 16*I_ref + 64); non-trivial = >= 2 logged calls; "
        "distinct = distinct (source, context)")
ASSUMPTIONS = ["cost is decided on the logical resolve-step counter (hook), never on wall-clock time",
               "surplus arguments of fixed-arity host functions are never evaluated (zero evaluations is "
               "'at most once')"]

HOST = make_host()


class LoggedGen(TypedGen):
    """Typed programs whose sub-expressions are wrapped in t(tag, .) and that call host functions."""

    def __init__(self, rng, max_depth=5, wrap=0.6):
        super().__init__(rng, max_depth)
        self.wrap = wrap
        self.tagn = 0

    def t(self, e):
        self.tagn += 1
        return ('call', 't', [('lit', I(self.tagn)), e])

    def gen(self, t, d=None):
        e = super().gen(t, d)
        if self.rng.random() < self.wrap:
            return self.t(e)
        return e

    def leaf(self, t):
        e = super().leaf(t)
        if self.rng.random() < self.wrap:
            return self.t(e)
        return e

    def gen_map(self, t, d):
        e = super().gen_map(t, d)
        if e[0] == 'map':
            # keys are operands too: log them
            e = ('map', [(self.t(k) if self.rng.random() < 0.8 else k, v) for k, v in e[1]])
        return e

    def gen_string(self, t, d):
        rng = self.rng
        if rng.random() < 0.45:
            return self.host_call(d)
        return super().gen_string(t, d)

    def gen_int(self, t, d):
        rng = self.rng
        m = rng.random()
        if m < 0.12:
            return ('call', 'va0', [self.gen(self.any_scalar(), d) for _ in range(rng.randint(0, 4))])
        if m < 0.2:
            x = self.gen('int', d)
            return ('call', 'ex1', [x]) if rng.random() < 0.7 else ('call', 'id2', [('id', 'someident'), x])
        return super().gen_int(t, d)

    def host_call(self, d):
        """A host-function call of string type (the catalogue returns its own name)."""
        rng = self.rng
        kinds = {'i': 'int', 'u': 'uint', 'd': 'double', 's': 'string', 'y': 'bytes', 'b': 'bool',
                 'l': ('list', 'int')}

        def arg(letter):
            if letter == 'v':
                return self.gen(self.any_scalar(), d)
            return self.gen(kinds[letter], d)
        name = rng.choice(["h0", "h1_i", "h1_s", "h1_v", "h1_l", "h1_b", "h1_u", "h1_d", "h1_y", "h2_is", "h2_si",
                           "h2_vv", "h2_ub", "h2_dl", "h3_isb", "h3_vyv", "h4_iudb", "h4_svls", "h5_iiiii",
                           "h5_suvbi", "h6_isisis", "h8_vvvvvvvv", "c0", "c1_i", "c2_sv", "c3_uib",
                           "m0_v", "m0_s", "m0_i", "m1_si", "m1_vv", "m1_ls", "m2_ius", "m3_vivb", "ma", "va"])
        if name == 'va':
            args = [self.gen(self.any_scalar(), d) for _ in range(rng.randint(0, 4))]
            base = ('call', 'va', args) if rng.random() < 0.6 or not args else ('mcall', args[0], 'va', args[1:])
            # va returns a list: make a string of it through size().string()
            return ('mcall', ('call', 'size', [base]), 'string', [])
        if name == 'ma':
            recv = self.gen(self.any_scalar(), d)
            args = [self.gen(self.any_scalar(), d) for _ in range(rng.randint(0, 3))]
            return ('mcall', recv, 'ma', args) if rng.random() < 0.5 else ('call', 'ma', [recv] + args)
        from celmodel.hostmodel import CATALOGUE
        this_kind, params, flavour = CATALOGUE[name]
        args = [arg(p) for p in params]
        extra = rng.random()
        if extra < 0.08 and args:
            args = args[:-1]                       # too few
        elif extra < 0.16:
            args = args + [self.gen('int', min(d, 1))]   # surplus (never evaluated)
        elif extra < 0.22 and args:
            i = rng.randrange(len(args))
            args[i] = self.gen('bool' if params[i] != 'b' else 'int', min(d, 1))   # kind mismatch
        if flavour == 'this':
            recv = arg(this_kind)
            if rng.random() < 0.5:
                return ('mcall', recv, name, args)
            return ('call', name, [recv] + args)
        return ('call', name, args)


def chain_programs():
    """Dedicated chains; yields (expr, family)."""
    seed_leaf = ('call', 't', [('lit', I(0)), ('lit', I(1))])
    for depth in range(1, 11):
        for f in ('int', 'string', 'double', 'uint', 'h1_v', 'm0_v', 'ex1', 'max', 'min', 'va0'):
            e = seed_leaf if f != 'uint' else ('call', 't', [('lit', I(0)), ('lit', U(1))])
            for _ in range(depth):
                e = ('call', f, [e])
            yield e, 'unary-global:' + f
        for f in ('int', 'string', 'double', 'm0_v', 'size'):
            e = seed_leaf if f != 'size' else ('call', 't', [('lit', I(0)), ('lit', S("ab"))])
            for i in range(depth):
                e = ('mcall', e, f, [])
                if f == 'size' and i + 1 < depth:
                    e = ('mcall', e, 'string', [])
            yield e, 'receiver-chain:' + f
        # two-argument chains, nested in second position and in first position
        e = ('lit', I(7))
        for i in range(depth):
            e = ('call', 't', [('lit', I(100 + i)), e])
        yield e, 'binary-second:t'
        e = seed_leaf
        for i in range(depth):
            e = ('call', 'h2_vv', [e, ('call', 't', [('lit', I(200 + i)), ('lit', I(i))])])
        yield e, 'binary-first:h2_vv'
        e = seed_leaf
        for i in range(depth):
            e = ('call', 'max', [e, ('call', 't', [('lit', I(300 + i)), ('lit', I(i))])])
        yield e, 'binary-first:max'
        e = ('call', 't', [('lit', I(0)), ('lit', S("abc"))])
        for i in range(depth):
            e = ('cond', ('mcall', e, 'startsWith', [('call', 't', [('lit', I(400 + i)), ('lit', S("a"))])]),
                 ('call', 't', [('lit', I(500 + i)), ('lit', S("ab"))]), ('lit', S("zz")))
        yield e, 'receiver+arg:startsWith'
        e = ('call', 't', [('lit', I(0)), ('list', [('lit', I(1))])])
        for i in range(depth):
            e = ('macro', 'map', e, 'x', [('call', 't', [('id', 'x'), ('bin', '+', ('id', 'x'), ('lit', I(1)))])])
        yield e, 'macro-chain:map'
        # literals: keys, values and elements in source order
        n = [0]

        def tl(v):
            n[0] += 1
            return ('call', 't', [('lit', I(600 + n[0])), v])
        entries = [(tl(('lit', I(i))), tl(('lit', S("v%d" % i)))) for i in range(depth)]
        yield ('map', entries), 'literal:map'
        yield ('map', [(tl(('lit', I(i))), tl(('bin', '/', ('lit', I(1)), ('lit', I(0 if i == 0 else 1))))) for i in range(depth)]), 'literal:map-failing-value'
        yield ('list', [tl(('lit', I(i))) for i in range(depth)]), 'literal:list'
        yield ('idx', tl(('list', [tl(('lit', I(i))) for i in range(depth)])), tl(('lit', I(0)))), 'index'
        yield ('idx', tl(('map', entries)), tl(('lit', I(0)))), 'index:map'
        # nested macros: work = product of the range sizes
        e = ('call', 't', [('lit', I(9)), ('id', 'x0')])
        for i in range(min(depth, 4)):
            e = ('macro', 'map', ('list', [('lit', I(1)), ('lit', I(2))]), 'x%d' % (min(depth, 4) - 1 - i),
                 [e if i == 0 else ('call', 'size', [e])])
        yield e, 'macro-nest:map'


class Shapes:
    """Operand shapes: an expression of a wanted value with a logging call buried in it."""

    def __init__(self):
        self.n = 0

    def t(self, e):
        self.n += 1
        return ('call', 't', [('lit', I(self.n)), e])

    def shapes(self, v):
        """v: expression (usually a literal) of the wanted value."""
        F = lambda name: ('lit', S(name))
        return [
            lambda: self.t(v),
            lambda: ('sel', self.t(('map', [(F('f'), v)])), 'f'),
            lambda: ('idx', self.t(('list', [v])), ('lit', I(0))),
            lambda: ('sel', ('sel', self.t(('map', [(F('f'), ('map', [(F('g'), v)]))])), 'f'), 'g'),
            lambda: ('idx', self.t(('map', [(F('k'), v)])), self.t(F('k'))),
            lambda: ('cond', self.t(('lit', B(True))), self.t(v), v),
            lambda: ('idx', ('macro', 'map', self.t(('list', [v])), 'q', [('id', 'q')]), ('lit', I(0))),
        ]


def position_programs(part, nparts):
    """Every construct with every operand slot filled by every operand shape; yields (expr, family)."""
    import itertools
    li = lambda x: ('lit', I(x))
    ls = lambda x: ('lit', S(x))
    lb = lambda x: ('lit', B(x))
    LIST = ('list', [li(1), li(2), li(3)])
    SL = ('list', [ls('GET'), ls('HEAD'), ls('PUT')])
    DEEP = ('map', [(ls('a'), ('map', [(ls('b'), ('map', [(ls('c'), li(7))]))])), (ls('method'), ls('PUT'))])
    X = ('id', 'x')
    T = []      # (family, hole base values, builder)
    for op in ('+', '-', '*', '/', '%', '==', '!=', '<', '<=', '>', '>='):
        T.append(('bin:' + op, [li(7), li(2)], (lambda op: lambda a, b: ('bin', op, a, b))(op)))
    T.append(('bin:&&', [lb(True), lb(False)], lambda a, b: ('bin', '&&', a, b)))
    T.append(('bin:||', [lb(False), lb(True)], lambda a, b: ('bin', '||', a, b)))
    T.append(('un:-', [li(3)], lambda a: ('un', '-', a)))
    T.append(('un:!', [lb(True)], lambda a: ('un', '!', a)))
    T.append(('cond', [lb(False), li(1), li(2)], lambda a, b, c: ('cond', a, b, c)))
    for hit in (1, 2, 3, 9):
        for n in (1, 2, 3, 4, 5):
            T.append(('in:list-literal', [li(hit)], (lambda n: lambda a: ('bin', 'in', a, ('list', [li(i + 1) for i in range(n)])))(n)))
    for hit in ('GET', 'HEAD', 'PUT', 'zz'):
        T.append(('in:string-list-literal', [ls(hit)], lambda a: ('bin', 'in', a, SL)))
        T.append(('in:logged-elements', [ls(hit), ls('GET'), ls('PUT')], lambda a, b, c: ('bin', 'in', a, ('list', [b, ls('HEAD'), c]))))
        T.append(('eq-chain', [ls(hit)], lambda a: ('bin', '||', ('bin', '==', a, ls('GET')), ('bin', '==', a, ls('PUT')))))
    T.append(('in:list-operand', [li(2), LIST], lambda a, b: ('bin', 'in', a, b)))
    T.append(('in:map-operand', [ls('a'), DEEP], lambda a, b: ('bin', 'in', a, b)))
    for path in (['a'], ['a', 'b'], ['a', 'b', 'c'], ['a', 'zz'], ['a', 'b', 'zz'], ['zz', 'b'], ['method'], ['a', 'b', 'c', 'd']):
        def mk_has(path):
            def b(root):
                e = root
                for f in path[:-1]:
                    e = ('sel', e, f)
                return ('has', e, path[-1])
            return b

        def mk_sel(path):
            def b(root):
                e = root
                for f in path:
                    e = ('sel', e, f)
                return e
            return b
        T.append(('has:' + str(len(path)), [DEEP], mk_has(path)))
        T.append(('select:' + str(len(path)), [DEEP], mk_sel(path)))
        T.append(('has-in-logic:' + str(len(path)), [DEEP, lb(True)], (lambda h: lambda r, c: ('bin', '&&', h(r), c))(mk_has(path))))
    T.append(('index:list', [LIST, li(1)], lambda a, b: ('idx', a, b)))
    T.append(('index:map', [DEEP, ls('method')], lambda a, b: ('idx', a, b)))
    T.append(('literal:list', [li(1), li(2), li(3)], lambda a, b, c: ('list', [a, b, c])))
    T.append(('literal:map', [ls('k'), li(1), ls('j'), li(2)], lambda a, b, c, d: ('map', [(a, b), (c, d)])))
    for f, base in (('size', [LIST]), ('string', [li(5)]), ('int', [ls('12')]), ('max', [li(1), li(2)]), ('min', [LIST]), ('double', [li(1)])):
        T.append(('call:' + f, base, (lambda f: lambda *a: ('call', f, list(a)))(f)))
        T.append(('mcall:' + f, base, (lambda f: lambda *a: ('mcall', a[0], f, list(a[1:])))(f)))
    for f in ('startsWith', 'endsWith', 'contains', 'matches'):
        T.append(('mcall:' + f, [ls('abc'), ls('a')], (lambda f: lambda a, b: ('mcall', a, f, [b]))(f)))
        T.append(('call:' + f, [ls('abc'), ls('c')], (lambda f: lambda a, b: ('call', f, [a, b]))(f)))
    T.append(('mcall:contains-list', [LIST, li(2)], lambda a, b: ('mcall', a, 'contains', [b])))
    for f in ('h2_vv', 'm1_vv', 'c2_sv'):
        pass
    for mk in ('all', 'exists', 'exists_one', 'filter', 'map'):
        T.append(('macro-range:' + mk, [LIST, li(2)], (lambda mk: lambda r, k: ('macro', mk, r, 'x', [('bin', '<', X, k)]))(mk)))
        T.append(('macro-range-select:' + mk, [LIST], (lambda mk: lambda r: ('macro', mk, r, 'x', [('call', 't', [X, ('bin', '>', X, li(1))])]))(mk)))
    T.append(('macro-range:map3', [LIST, li(2), li(10)], lambda r, k, m: ('macro', 'map', r, 'x', [('bin', '<', X, k), ('bin', '*', X, m)])))
    T.append(('macro-in-body', [LIST, li(2)], lambda r, k: ('macro', 'exists', LIST, 'x', [('bin', 'in', ('bin', '+', X, k), r)])))
    out = []
    for ti, (fam, bases, build) in enumerate(T):
        if ti % nparts != part:
            continue
        sh = Shapes()
        nshapes = len(sh.shapes(bases[0]))
        combos = list(itertools.product(range(nshapes), repeat=len(bases)))
        if len(combos) > 60:
            # all single deviations from shape 0 plus the diagonals
            keep = set()
            for i in range(len(bases)):
                for k in range(nshapes):
                    c = [0] * len(bases)
                    c[i] = k
                    keep.add(tuple(c))
            for k in range(nshapes):
                keep.add(tuple([k] * len(bases)))
            combos = sorted(keep)
        for combo in combos:
            sh.n = 0
            args = [sh.shapes(b)[k]() for b, k in zip(bases, combo)]
            out.append((build(*args), 'positions:' + fam))
    return out


def units(tier, seed):
    us = [('chains',), ('positions', 0, 3), ('positions', 1, 3), ('positions', 2, 3)]
    for i in range(32 if tier == 'quick' else 1280):
        us.append(('random', i))
    return us


def judge(res, case, rec, e, variables, family):
    res.evaluations += 1
    try:
        outs, complete = all_outcomes(e, dict(variables), host=HOST, cap=40)
    except Unsupported as u:
        res.count("skipped:unsupported")
        res.see("unsupported_reasons", str(u)[:60])
        return
    obs = top_outcome(rec)
    if obs[0] == 'inconclusive':
        res.inconclusive.append(str(obs[1])[:200])
        return
    if obs[0] == 'compile_err':
        res.violation('rejected', 'logged program', 'compile error', case, observed=str(obs[1])[:300])
        return
    log = norm_log(rec.get("log"))
    steps = rec.get("steps", 0)
    res.count("outcome:" + (obs[1] if obs[0] == 'err' else obs[0]))
    res.count("family:" + family.split(':')[0])
    # some (outcome, log) pair of the reference (one per admissible map order) must match exactly
    match = None
    for o, ev in outs:
        if same_outcome(o, obs) and norm_log(ev.log) == log:
            match = ev
            break
    if len(log or []) >= 2:
        res.nt(case["src"] + repr(case.get("vars")))
    res.count("host_calls_logged", len(log or []))
    if match is None:
        # an argument-conversion error of a host function: evaluating the remaining arguments before
        # reporting it is still "at most once, in source order" - accept a log that extends the reference's
        for o, ev in outs:
            el = norm_log(ev.log)
            if o[0] == 'err' and o[1] in ('type', 'arg_count') and same_outcome(o, obs) and log[:len(el)] == el:
                tags = [json.dumps(x) for x in log if x and x[0] == 't']
                if len(tags) == len(set(tags)):
                    res.count("accepted:eager-arguments-after-mismatch")
                    return
        # an under-supplied call (fewer arguments than the function declares) fails whatever is done with the
        # arguments it has: any error is right, and so is any evaluation strategy for that call that stays "at
        # most once, in source order" - everything logged before the call started must match, what follows
        # must be a duplicate-free sub-sequence of the lazy in-order reference
        if obs[0] == 'err':
            for o, ev in outs:
                sc = getattr(ev, 'short_calls', None)
                if not sc or o[0] != 'err':
                    continue
                el = norm_log(ev.log)
                p0 = sc[0]
                rest = log[p0:]
                keys = [json.dumps(x) for x in rest]
                it = iter(el[p0:])
                if log[:p0] == el[:p0] and all(any(x == y for y in it) for x in rest):
                    res.count("accepted:under-supplied-call")
                    return
        if not complete and not is_crash(obs):
            res.count("skipped:map-order-unbounded")
            return
        o0, ev0 = outs[0]
        if is_crash(obs):
            res.violation(obs[0], 'logged program', crash_sig(obs), case, observed=list(obs))
            return
        if not any(same_outcome(o, obs) for o, _ in outs):
            res.violation(mismatch_kind(o0, obs), 'outcome of a logged program: ' + family, 'outcome differs', case,
                          expected=fmt_outcome(o0), observed=fmt_outcome(obs))
            return
        # outcome right, log wrong: classify
        exp_tags = [str(x) for x in norm_log(ev0.log)]
        got_tags = [str(x) for x in (log or [])]
        if sorted(exp_tags) == sorted(got_tags):
            beh = 'order'
        elif any(got_tags.count(x) > exp_tags.count(x) for x in set(got_tags)):
            beh = 'evaluated-more-than-once-or-unexpectedly'
        else:
            beh = 'missing-evaluation'
        res.violation('log-mismatch', 'evaluation log: ' + family.split(':')[0], beh, case,
                      expected=norm_log(ev0.log)[:300], observed=(log or [])[:300])
        return
    bound = 4 * match.nodes + 16 * match.iters + 64
    res.count("steps_total", steps)
    res.see("steps_over_nodes_pct", min(400, int(100 * steps / max(1, match.nodes))) // 10 * 10)
    if steps > bound:
        res.violation('step-bound', 'resolve steps: ' + family.split(':')[0], 'steps exceed linear bound', case,
                      expected={"bound": bound, "ref_nodes": match.nodes, "ref_iters": match.iters},
                      observed={"steps": steps})


def run_unit(unit, drv, res, seed, tier):
    kind = unit[0]
    items = []
    if kind == 'chains':
        for e, fam in chain_programs():
            for form in ('min', 'full'):
                src = render_min(e) if form == 'min' else render_full(e)
                items.append((src, e, [], fam))
        res.exhaustive_done['chains-depth-1-10'] = True
    elif kind == 'positions':
        for e, fam in position_programs(unit[1], unit[2]):
            for form in ('min', 'full'):
                src = render_min(e) if form == 'min' else render_full(e)
                items.append((src, e, [], fam))
        res.exhaustive_done['constructs-x-operand-shapes'] = True
    else:
        rng = rng_for(seed, 'C07', unit[1])
        for _ in range(1200):
            g = LoggedGen(rng, max_depth=rng.choice([2, 3, 4, 5, 6, 8]), wrap=rng.choice([0.4, 0.7, 0.9]))
            ctx = g.make_context(rng.randint(1, 4))
            e = g.program() if rng.random() < 0.6 else g.gen('string', g.max_depth)
            try:
                src = render_min(e, rng, 0.03)
            except ValueError:
                continue
            items.append((src, e, ctx, 'random:typed'))
    for part in chunks(items, 3000):
        cases = [exec_case(i, src, ctx) for i, (src, e, ctx, fam) in enumerate(part)]
        out = drv.run(cases, kind)
        for c, r, (src, e, ctx, fam) in zip(cases, out, part):
            judge(res, c, r, e, ctx, fam)
        if part:
            res.sample({"src": part[len(part) // 2][0][:400]}, cap=2)


def recheck(cases, out, res):
    for c, r in zip(cases, out):
        obs = top_outcome(r)
        print("observed:", fmt_outcome(obs) if not is_crash(obs) else obs, "steps:", r.get("steps"), "log:", r.get("log"))
        if is_crash(obs):
            res.violation(obs[0], 'replay', crash_sig(obs), c)
