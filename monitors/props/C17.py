"""C17 — host data converts to CEL values without loss of structure."""
import math
import struct

from celmodel.values import (I, U, D, S, Y, B, L, M, NULL, DUR, TS, to_json, from_json, top_outcome, outcome, is_crash,
                             struct_eq, canon, I64_MIN, I64_MAX, U64_MAX, dbits)
from .common import rng_for, crash_sig, chunks, fmt_outcome

RULE = ("values of a recursive 'any serde type' generator (depth <= 5) interpreted by the driver's AnySer, which calls "
        "exactly the serde Serializer method each node names: every integer width incl. 128-bit with per-width "
        "extremes, f32 / f64 incl. NaN / inf / -0.0, bool, char, str, collect_str, bytes, none / some, unit, unit "
        "struct, unit / newtype / tuple / struct variants, newtype struct, seq (with and without length), tuple, tuple "
        "struct, map (serialize_key/value and serialize_entry) with keys of every kind incl. the rejected ones, "
        "struct, values that consult is_human_readable (readable form expected, as under serde_json), maps holding one number / text under several key kinds, the public Duration / Timestamp wrappers, and serde_json documents; converted through to_value and "
        "Context::add_variable; oracle: the serde-shape map, and on the JSON-representable subset equality of "
        "to_value(x).json() with serde_json::to_value(x) (both computed in the driver); non-trivial = spec of depth "
        ">= 2 or with a non-string key; distinct = distinct spec")
ASSUMPTIONS = ["serde_json is the reference serialisation for the commutation clause",
               "newtype structs named like the crate's private Duration / Timestamp markers are only produced "
               "through the public wrapper types"]


class Unsupp(Exception):
    """The spec contains something the library may legitimately reject."""


def f32_widen(bits):
    return struct.unpack('<f', struct.pack('<I', bits))[0]


def bitsf(bits):
    return struct.unpack('<d', struct.pack('<Q', bits))[0]


def key_shape(spec):
    k, v = spec["k"], spec.get("v")
    if k in ('i8', 'i16', 'i32', 'i64'):
        return I(v)
    if k in ('u8', 'u16', 'u32', 'u64'):
        return U(v)
    if k == 'bool':
        return B(v)
    if k in ('char', 'str', 'collect_str'):
        return S(v)
    if k == 'unit_variant':
        return S(v[1])
    if k == 'some':
        return key_shape(v)
    if k == 'newtype_struct':
        return key_shape(v[1])
    if k == 'hr':
        return key_shape(v[0])
    raise Unsupp('key kind ' + k)


def put(entries, k, v):
    entries = [(a, b) for a, b in entries if canon(a) != canon(k)]
    entries.append((k, v))
    return entries


def shape(spec):
    """Expected CEL value of a spec; raises Unsupp where an error is an acceptable outcome."""
    k, v = spec["k"], spec.get("v")
    if k == 'bool':
        return B(v)
    if k in ('i8', 'i16', 'i32', 'i64'):
        return I(v)
    if k in ('u8', 'u16', 'u32', 'u64'):
        return U(v)
    if k == 'i128':
        x = int(v)
        if I64_MIN <= x <= I64_MAX:
            raise Unsupp('i128 in range: value or error')   # if converted it must be Int(x): checked separately
        raise Unsupp('i128 out of range')
    if k == 'u128':
        raise Unsupp('u128')
    if k == 'f32':
        return D(f32_widen(v))
    if k == 'f64':
        return D(bitsf(v))
    if k in ('char', 'str', 'collect_str'):
        return S(v)
    if k == 'bytes':
        return Y(bytes.fromhex(v))
    if k in ('none', 'unit', 'unit_struct'):
        return NULL
    if k == 'some':
        return shape(v)
    if k == 'unit_variant':
        return S(v[1])
    if k == 'newtype_struct':
        return shape(v[1])
    if k == 'newtype_variant':
        return M([(S(v[1]), shape(v[2]))])
    if k in ('seq', 'tuple', 'tuple_struct'):
        return L([shape(x) for x in v])
    if k == 'tuple_variant':
        return M([(S(v[1]), L([shape(x) for x in v[2]]))])
    if k == 'map':
        es = []
        for kk, vv in v:
            es = put(es, key_shape(kk), shape(vv))
        return M(es)
    if k == 'struct':
        es = []
        for name, vv in v:
            es = put(es, S(name), shape(vv))
        return M(es)
    if k == 'struct_variant':
        es = []
        for name, vv in v[2]:
            es = put(es, S(name), shape(vv))
        return M([(S(v[1]), M(es))])
    if k == 'duration':
        ns = v[0] * 1_000_000_000 + v[1]
        if not (I64_MIN <= ns <= I64_MAX):
            raise Unsupp('duration beyond i64 ns')
        return DUR(ns)
    if k == 'timestamp':
        return TS(v[0], v[1], v[2])
    if k == 'json':
        return json_shape(v)
    if k == 'hr':
        # CEL values are a human-readable format in the sense of serde (as serde_json is): the readable form
        return shape(v[0])
    raise ValueError(k)


def json_shape(j):
    if j is None:
        return NULL
    if isinstance(j, bool):
        return B(j)
    if isinstance(j, int):
        return U(j) if j >= 0 else I(j)
    if isinstance(j, float):
        return D(j)
    if isinstance(j, str):
        return S(j)
    if isinstance(j, list):
        return L([json_shape(x) for x in j])
    es = []
    for k, v in j.items():
        es = put(es, S(k), json_shape(v))
    return M(es)


def i128_expect(spec):
    """For a top-level / nested in-range 128-bit integer: acceptable = error, or exactly Int / UInt of it."""
    return None


def json_representable(spec):
    """No 128-bit, no bytes, no wrappers; map keys only int / bool / string-like; no text-colliding keys."""
    k, v = spec["k"], spec.get("v")
    if k in ('i128', 'u128', 'bytes', 'duration', 'timestamp'):
        return False
    if k == 'some':
        return json_representable(v)
    if k == 'hr':
        return json_representable(v[0])
    if k == 'newtype_struct':
        return json_representable(v[1])
    if k == 'newtype_variant':
        return json_representable(v[2])
    if k in ('seq', 'tuple', 'tuple_struct'):
        return all(json_representable(x) for x in v)
    if k == 'tuple_variant':
        return all(json_representable(x) for x in v[2])
    if k == 'map':
        texts = set()
        for kk, vv in v:
            if kk["k"] not in ('i8', 'i16', 'i32', 'i64', 'u8', 'u16', 'u32', 'u64', 'bool', 'char', 'str', 'unit_variant'):
                return False
            t = kk["v"][1] if kk["k"] == 'unit_variant' else kk["v"]
            t = str(t).lower() if isinstance(t, bool) else str(t)
            if t in texts:
                return False
            texts.add(t)
            if not json_representable(vv):
                return False
        return True
    if k == 'struct':
        names = [n for n, _ in v]
        return len(names) == len(set(names)) and all(json_representable(x) for _, x in v)
    if k == 'struct_variant':
        names = [n for n, _ in v[2]]
        return len(names) == len(set(names)) and all(json_representable(x) for _, x in v[2])
    if k == 'json':
        return True
    return True


WIDTH = {'i8': (-128, 127), 'i16': (-32768, 32767), 'i32': (-2 ** 31, 2 ** 31 - 1), 'i64': (I64_MIN, I64_MAX),
         'u8': (0, 255), 'u16': (0, 65535), 'u32': (0, 2 ** 32 - 1), 'u64': (0, U64_MAX)}
NAMES = ["a", "b", "V", "Some", "kind", "x y", "", "é", "1", "true", "size"]


class SpecGen:
    def __init__(self, rng):
        self.rng = rng

    def scalar(self):
        rng = self.rng
        k = rng.choice(['bool', 'i8', 'i16', 'i32', 'i64', 'u8', 'u16', 'u32', 'u64', 'f32', 'f64', 'char', 'str', 'bytes',
                        'none', 'unit', 'unit_struct', 'unit_variant', 'collect_str', 'i128', 'u128', 'duration', 'timestamp'])
        return self.of_kind(k)

    def of_kind(self, k):
        rng = self.rng
        if k == 'bool':
            return {"k": k, "v": rng.random() < 0.5}
        if k in WIDTH:
            lo, hi = WIDTH[k]
            return {"k": k, "v": rng.choice([lo, hi, 0, 1, -1 if lo < 0 else 2, lo + 1, hi - 1, rng.randint(lo, hi)])}
        if k == 'i128':
            return {"k": k, "v": str(rng.choice([0, -1, I64_MIN, I64_MAX, I64_MIN - 1, I64_MAX + 1, -(2 ** 127), 2 ** 127 - 1, U64_MAX, 12345]))}
        if k == 'u128':
            return {"k": k, "v": str(rng.choice([0, 1, U64_MAX, U64_MAX + 1, 2 ** 128 - 1, I64_MAX + 1, 7]))}
        if k == 'f32':
            return {"k": k, "v": rng.choice([0, 0x80000000, 0x3f800000, 0x7f800000, 0xff800000, 0x7fc00000, 0x00000001, 0x7f7fffff, 0x3dcccccd, rng.getrandbits(32)])}
        if k == 'f64':
            return {"k": k, "v": rng.choice([0, 1 << 63, dbits(1.0), dbits(float('inf')), dbits(float('nan')), 1, dbits(1.7976931348623157e308), dbits(0.1), rng.getrandbits(64)])}
        if k == 'char':
            return {"k": k, "v": rng.choice(['a', 'é', '日', '𝄞', '\x00', '"', '\\', '\U0010ffff', ' '])}
        if k in ('str', 'collect_str'):
            return {"k": k, "v": rng.choice(["", "a", "héllo", "日本", "a\x00b", "quote\"s", "𝄞", "x" * 50, "1", "true"])}
        if k == 'bytes':
            return {"k": k, "v": rng.choice(["", "00", "ff", "c3a9", "0001feff", "61626364"])}
        if k in ('none', 'unit'):
            return {"k": k}
        if k == 'unit_struct':
            return {"k": k, "v": "U"}
        if k == 'unit_variant':
            return {"k": k, "v": [rng.randint(0, 3), rng.choice(NAMES)]}
        if k == 'duration':
            secs = rng.choice([0, 1, -1, 7200, 9223372036, -9223372036, 9223372037, -9223372037, 9223372036854775, -9223372036854775, 365 * 300 * 86400, rng.randint(-10 ** 9, 10 ** 9)])
            nanos = rng.choice([0, 1, 999_999_999, 500_000_000, 854_775_807, 854_775_808])
            if secs < 0:
                nanos = -nanos
            if abs(secs) >= 9223372036854775:
                nanos = (807_000_000 if secs > 0 else -807_000_000) if rng.random() < 0.5 else 0
            return {"k": k, "v": [secs, nanos]}
        if k == 'timestamp':
            return {"k": k, "v": [rng.choice([0, 1685232000, -1, -62135596800, 253402300799, 951782400]), rng.choice([0, 1, 999_999_999, 123_000_000]),
                                 rng.choice([0, 3600, -3600, 19800, 50400, -43200])]}
        raise ValueError(k)

    def key(self):
        rng = self.rng
        m = rng.random()
        if m < 0.75:
            return self.of_kind(rng.choice(['i8', 'i32', 'i64', 'u8', 'u64', 'bool', 'char', 'str', 'str', 'unit_variant']))
        if m < 0.82:
            return {"k": "some", "v": self.key()}
        if m < 0.87:
            return {"k": "newtype_struct", "v": ["N", self.key()]}
        # kinds the key serializer rejects
        bad = rng.choice(['f32', 'f64', 'bytes', 'none', 'unit', 'unit_struct', 'seq', 'tuple', 'map', 'struct', 'newtype_variant',
                          'tuple_variant', 'struct_variant', 'tuple_struct', 'i128', 'u128'])
        if bad in ('seq', 'tuple', 'tuple_struct'):
            return {"k": bad, "v": [self.of_kind('i8')]}
        if bad == 'map':
            return {"k": bad, "v": []}
        if bad == 'struct':
            return {"k": bad, "v": [["f", self.of_kind('i8')]]}
        if bad == 'newtype_variant':
            return {"k": bad, "v": [0, "V", self.of_kind('i8')]}
        if bad == 'tuple_variant':
            return {"k": bad, "v": [0, "V", [self.of_kind('i8')]]}
        if bad == 'struct_variant':
            return {"k": bad, "v": [0, "V", [["f", self.of_kind('i8')]]]}
        return self.of_kind(bad)

    def gen(self, d):
        rng = self.rng
        if d <= 0 or rng.random() < 0.3:
            return self.scalar()
        k = rng.choice(['some', 'newtype_struct', 'newtype_variant', 'seq', 'seq', 'tuple', 'tuple_struct', 'tuple_variant',
                        'map', 'map', 'struct', 'struct', 'struct_variant', 'hr'])
        n = rng.randint(0, 3)
        if k == 'some':
            return {"k": k, "v": self.gen(d - 1)}
        if k == 'hr':
            # readable form: a string (or anything); compact form: a tuple / variant / bytes
            return {"k": k, "v": [self.gen(d - 1) if rng.random() < 0.5 else self.of_kind('str'),
                                  rng.choice([{"k": "tuple", "v": [self.of_kind('u8') for _ in range(4)]}, self.of_kind('bytes'),
                                              {"k": "newtype_variant", "v": [0, "V4", {"k": "tuple", "v": [self.of_kind('u8')]}]}, self.of_kind('u64')])]}
        if k == 'newtype_struct':
            return {"k": k, "v": ["N", self.gen(d - 1)]}
        if k == 'newtype_variant':
            return {"k": k, "v": [rng.randint(0, 3), rng.choice(NAMES), self.gen(d - 1)]}
        if k in ('seq', 'tuple', 'tuple_struct'):
            s = {"k": k, "v": [self.gen(d - 1) for _ in range(n)]}
            if k == 'seq' and rng.random() < 0.4:
                s["nolen"] = True
            return s
        if k == 'tuple_variant':
            return {"k": k, "v": [rng.randint(0, 3), rng.choice(NAMES), [self.gen(d - 1) for _ in range(n)]]}
        if k == 'map':
            s = {"k": k, "v": [[self.key(), self.gen(d - 1)] for _ in range(n)]}
            if rng.random() < 0.4:
                s["nolen"] = True
            if rng.random() < 0.5:
                s["entry"] = True
            return s
        if k == 'struct':
            return {"k": k, "v": [[rng.choice(NAMES), self.gen(d - 1)] for _ in range(n)]}
        return {"k": k, "v": [rng.randint(0, 3), rng.choice(NAMES), [[rng.choice(NAMES), self.gen(d - 1)] for _ in range(n)]]}

    def json_doc(self, d):
        rng = self.rng
        if d <= 0 or rng.random() < 0.35:
            return rng.choice([None, True, False, 0, 1, -1, I64_MAX, I64_MIN, U64_MAX, 1.5, -0.25, 1e300, "", "a", "é𝄞", "1"])
        if rng.random() < 0.5:
            return [self.json_doc(d - 1) for _ in range(rng.randint(0, 3))]
        return {rng.choice(NAMES): self.json_doc(d - 1) for _ in range(rng.randint(0, 3))}


def spec_depth(s):
    k, v = s["k"], s.get("v")
    if k == 'some':
        return 1 + spec_depth(v)
    if k == 'hr':
        return 1 + spec_depth(v[0])
    if k == 'newtype_struct':
        return 1 + spec_depth(v[1])
    if k == 'newtype_variant':
        return 1 + spec_depth(v[2])
    if k in ('seq', 'tuple', 'tuple_struct'):
        return 1 + max([spec_depth(x) for x in v] or [0])
    if k == 'tuple_variant':
        return 1 + max([spec_depth(x) for x in v[2]] or [0])
    if k == 'map':
        return 1 + max([spec_depth(x) for _, x in v] or [0])
    if k == 'struct':
        return 1 + max([spec_depth(x) for _, x in v] or [0])
    if k == 'struct_variant':
        return 1 + max([spec_depth(x) for _, x in v[2]] or [0])
    return 0


def has_nonstring_key(s):
    return '"k": "map"' in str(s).replace("'", '"')


def check(res, case, rec):
    res.evaluations += 1
    spec = case["spec"]
    if spec_depth(spec) >= 2 or spec["k"] == 'map':
        res.nt(str(spec))
    o = top_outcome(rec, 'val') if not (isinstance(rec, dict) and ('val' in rec or 'serr' in rec)) else None
    if o is not None:
        if is_crash(o):
            res.violation(o[0], 'conversion of host data', crash_sig(o), case, observed=list(o))
        else:
            res.inconclusive.append("to_value: " + str(rec)[:200])
        return
    res.see("serializer_methods", spec["k"])
    if 'serr' in rec and 'HARNESS-SPEC-ERROR' in rec['serr']:
        res.inconclusive.append("bad spec: " + rec['serr'][:100])
        return
    try:
        exp = shape(spec)
        unsupported = None
    except Unsupp as u:
        exp, unsupported = None, str(u)
    if 'val' in rec:
        got = from_json(rec['val'])
        res.count("outcome:converted")
        if exp is not None:
            if not struct_eq(exp, got):
                res.violation('wrong-shape', 'conversion of ' + spec["k"], 'value differs from the serde shape', case,
                              expected=to_json(exp), observed=rec['val'])
                return
        else:
            # conversion of something the library may reject: if it converts, in-range 128-bit integers
            # must still denote the same number; anything else would be silent corruption
            if spec["k"] in ('i128', 'u128'):
                x = int(spec["v"])
                if not ((got[0] in ('i', 'u')) and got[1] == x):
                    res.violation('wrong-shape', 'conversion of ' + spec["k"], '128-bit integer changed value', case,
                                  expected="error, or exactly %d" % x, observed=rec['val'])
                    return
    else:
        res.count("outcome:error")
        if exp is not None and not json_representable(spec):
            # the statement allows a conversion to fail; only JSON-representable data must convert (below)
            res.count("outcome:error-on-convertible-shape")
    # commutation with serde_json on the JSON-representable subset
    if json_representable(spec):
        if 'sj' in rec:
            res.count("commutation_checked")
            if 'val' not in rec:
                res.violation('error-instead-of-value', 'JSON-representable data', 'conversion failed', case, observed=rec.get('serr'))
            elif rec.get('commute') is not True:
                res.violation('not-commuting', 'JSON-representable data', 'to_value(x).json() differs from serde_json::to_value(x)', case,
                              expected=rec.get('sj'), observed=rec.get('vj', rec.get('vj_err')))
        else:
            res.count("serde_json_rejected")


def units(tier, seed):
    us = [('each',)]
    for i in range(24 if tier == 'quick' else 1280):
        us.append(('random', i))
    return us


def run_unit(unit, drv, res, seed, tier):
    rng = rng_for(seed, 'C17', *unit)
    g = SpecGen(rng)
    specs = []
    if unit[0] == 'each':
        # every scalar kind with each of its listed extremes, every key kind, every compound kind
        for k in ['bool', 'i8', 'i16', 'i32', 'i64', 'u8', 'u16', 'u32', 'u64', 'f32', 'f64', 'char', 'str', 'bytes', 'none', 'unit',
                  'unit_struct', 'unit_variant', 'collect_str', 'i128', 'u128', 'duration', 'timestamp']:
            for _ in range(40):
                specs.append(g.of_kind(k))
        for k in WIDTH:
            lo, hi = WIDTH[k]
            for v in (lo, hi, 0):
                specs.append({"k": k, "v": v})
                specs.append({"k": "map", "v": [[{"k": k, "v": v}, {"k": "str", "v": "val"}]]})
        for _ in range(400):
            specs.append({"k": "map", "v": [[g.key(), g.scalar()]], "entry": rng.random() < 0.5})
        # maps whose keys denote the same number / text under different key kinds: all are distinct keys
        import itertools as _it
        twins = [{"k": "i64", "v": 1}, {"k": "u64", "v": 1}, {"k": "str", "v": "1"}, {"k": "bool", "v": True}, {"k": "str", "v": "true"},
                 {"k": "char", "v": "1"}, {"k": "i8", "v": -1}, {"k": "u8", "v": 255}, {"k": "i64", "v": 0}, {"k": "u64", "v": 0},
                 {"k": "u8", "v": 1}, {"k": "i32", "v": 1}, {"k": "unit_variant", "v": [0, "1"]}, {"k": "u64", "v": 2}, {"k": "i16", "v": 2}]
        for n in (2, 3):
            for ks in _it.permutations(twins, n):
                if n == 3 and rng.random() < 0.9:
                    continue
                specs.append({"k": "map", "v": [[kk, {"k": "str", "v": "v%d" % i}] for i, kk in enumerate(ks)], "entry": rng.random() < 0.5})
        specs.append({"k": "map", "v": [[kk, {"k": "i64", "v": i}] for i, kk in enumerate(twins)]})
        for _ in range(60):
            specs.append({"k": "hr", "v": [g.of_kind('str'), {"k": "tuple", "v": [g.of_kind('u8') for _ in range(4)]}]})
            specs.append({"k": "seq", "v": [{"k": "hr", "v": [g.of_kind('str'), g.of_kind('bytes')]}]})
            specs.append({"k": "map", "v": [[{"k": "hr", "v": [g.of_kind('str'), g.of_kind('u64')]}, g.scalar()]]})
            specs.append({"k": "struct", "v": [["addr", {"k": "hr", "v": [g.of_kind('str'), {"k": "newtype_variant", "v": [0, "V4", g.of_kind('u32')]}]}]]})
        res.exhaustive_done['every-serializer-method'] = True
    else:
        for _ in range(1500):
            if rng.random() < 0.15:
                specs.append({"k": "json", "v": g.json_doc(rng.choice([1, 2, 3, 4]))})
            else:
                specs.append(g.gen(rng.choice([1, 2, 3, 4, 5])))
    cases = []
    for i, s in enumerate(specs):
        cases.append({"id": len(cases), "op": "to_value", "spec": s, "via": "to_value"})
        if i % 3 == 0:
            cases.append({"id": len(cases), "op": "to_value", "spec": s, "via": "add_variable"})
    for part in chunks(cases, 4000):
        out = drv.run(part, unit[0])
        for c, r in zip(part, out):
            check(res, c, r)
    res.sample({"spec": specs[len(specs) // 2]}, cap=2)


def recheck(cases, out, res):
    for c, r in zip(cases, out):
        print("observed:", str(r)[:800])
        check(res, c, r)
