"""C02 — executing any program against any context returns a value or an error."""
import os
from celmodel.values import to_json, top_outcome, outcome, is_crash, canon
from celmodel.expr import render_min, render_full, count_ops, render_literal
from celmodel.gen import UntypedGen, hostile_pool, rnd_value, FUNCS, HOST_FUNCS, IDENTS
from .common import exec_case, rng_for, crash_sig, chunks, check_total

RULE = ("untyped grammar-generated programs (depth <= 8) over every operator, macro, built-in (both call styles, "
        "0-3 arguments), host function of arity 0-9 and literal form, run against contexts whose variables come "
        "from a hostile pool (i64/u64 extremes, NaN, infinities, subnormals, empty / non-ASCII strings and bytes, "
        "nested collections, durations and timestamps up to chrono's limits, function values); exhaustively all "
        "ordered pairs of the pool under + - * / % == != < <= > >= and partial_cmp applied directly to Value and "
        "inside programs; every built-in on every pool value in both call styles; every built-in and typed extractor on digit runs of 1-1200 digits in every numeric / duration / timestamp position and on long non-ASCII texts at every byte alignment, alone and inside wrongly typed receivers; every pair of strings / byte strings / lists of length <= 3 over a 3-unit alphabet under contains / startsWith / endsWith / in / matches / + / index; the only oracle is totality "
        "(value or ExecutionError; no panic / abort / hang); non-trivial = program with >= 2 operators or an "
        "extreme operand; distinct = distinct (source, context) / value pair")
ASSUMPTIONS = ["driver built with overflow checks and debug assertions on (profile mon), 8 MiB stack",
               "a panic is observed through catch_unwind, an abort / stack overflow through the death of the "
               "driver process, a hang through a 30 s watchdog confirmed in isolation with 120 s"]

POOL = hostile_pool()
VALUE_OPS = ['add', 'sub', 'mul', 'div', 'rem', 'eq', 'ne', 'cmp', 'lt', 'le', 'gt', 'ge']
PROG_OPS = ['+', '-', '*', '/', '%', '==', '!=', '<', '<=', '>', '>=', 'in']


def units(tier, seed):
    us = []
    n = len(POOL)
    step = 10
    for i in range(0, n, step):
        us.append(('valueop', i, min(n, i + step)))
    for i in range(0, n, 25 if tier == 'thorough' else 50):
        us.append(('progpairs', i, min(n, i + (25 if tier == 'thorough' else 50)), tier))
    us.append(('indexing',))
    us.append(('regex',))
    us.append(('builtins', 0))
    us.append(('builtins', 1))
    for i in range(4):
        us.append(('textargs', i))
    us.append(('substr', 0))
    us.append(('substr', 1))
    for i in range(32 if tier == 'quick' else 960):
        us.append(('programs', i))
    return us


def run_unit(unit, drv, res, seed, tier):
    kind = unit[0]
    rng = rng_for(seed, 'C02', *unit)
    if kind == 'valueop':
        cases = []
        for i in range(unit[1], unit[2]):
            for j, b in enumerate(POOL):
                cases.append({"id": len(cases), "op": "valueop", "a": to_json(POOL[i]), "b": to_json(b)})
        out = drv.run(cases, 'valueop')
        for c, r in zip(cases, out):
            res.evaluations += 1
            res.nt("vo|" + str(c["a"]) + "|" + str(c["b"]))
            if any(k in r for k in ('abort', 'hang', 'panic')) and 'add' not in r:
                o = outcome(r)
                res.violation(o[0], 'direct Value operator', crash_sig(o), c, expected="value or error", observed=list(o))
                continue
            for op in VALUE_OPS:
                x = r.get(op)
                res.count("valueop:" + op)
                if isinstance(x, dict) and 'panic' in x:
                    o = outcome(x)
                    res.violation('panic', 'direct Value operator ' + op, crash_sig(o), c,
                                  expected="value or error", observed=list(o))
                elif isinstance(x, dict) and 'err' in x:
                    res.see("error_variants", x['err'])
        res.exhaustive_done['value-pairs-direct'] = True
        res.sample({"op": "valueop", "a": cases[7]["a"], "b": cases[7]["b"]}, cap=1)
    elif kind == 'progpairs':
        cases = []
        sub = range(unit[1], unit[2])
        for i in sub:
            for j, b in enumerate(POOL):
                if unit[3] == 'quick' and (i * 31 + j * 17) % 4 != 0:
                    continue
                ops = PROG_OPS if unit[3] == 'thorough' else [PROG_OPS[(i + j) % len(PROG_OPS)], PROG_OPS[(i * 7 + j * 3 + 5) % len(PROG_OPS)]]
                for op in ops:
                    cases.append(exec_case(len(cases), "a %s b" % op, [("a", POOL[i]), ("b", b)]))
        for part in chunks(cases, 8000):
            out = drv.run(part, 'progpairs')
            for c, r in zip(part, out):
                res.evaluations += 1
                res.nt(c["src"] + str(c["vars"]))
                o = check_total(res, c, r, 'binary operator on pool values')
                if o[0] == 'err':
                    res.see("error_variants", o[2])
        if unit[3] == 'thorough':
            res.exhaustive_done['value-pairs-in-programs'] = True
    elif kind == 'indexing':
        from celmodel.values import I, I64_MIN, I64_MAX
        cases = []
        for v in POOL:
            if v[0] not in ('s', 'l', 'm', 'y'):
                continue
            n = len(v[1].encode('utf-8')) if v[0] == 's' else len(v[1])
            for i in list(range(-2, n + 2)) + [I64_MIN, I64_MAX, 1 << 32, -(1 << 32)]:
                cases.append(exec_case(len(cases), "a[i]", [("a", v), ("i", I(i))]))
                if v[0] == 's' and -1 <= i <= 3:
                    try:
                        cases.append(exec_case(len(cases), "%s[%d]" % (render_literal(v), i)))
                    except ValueError:
                        pass
        out = drv.run(cases, 'indexing')
        for c, r in zip(cases, out):
            res.evaluations += 1
            res.nt(c["src"] + str(c.get("vars")))
            o = check_total(res, c, r, 'indexing a pool value')
            res.count("index_outcome:" + (o[1] if o[0] == 'err' else o[0]))
        res.exhaustive_done['indexing-x-pool'] = True
    elif kind == 'regex':
        # one process, many distinct patterns, ill-formed ones in between (pattern caches, poisoned state)
        cases = []
        bad = ['(', '[', '\\', '*', 'a{', '(?P<', '\\p{Nope}', 'a**', '(?<x', '[z-a]', '\\', ')']
        for i in range(400):
            if i % 7 == 3:
                p_ = bad[(i // 7) % len(bad)]
            else:
                p_ = ['^abc%d$' % i, 'a{%d}' % (i % 40), '[a-z]{1,%d}x%d' % (1 + i % 9, i), '(x|y%d)+' % i, '\\d{%d}' % (i % 30)][i % 5]
            cases.append(exec_case(len(cases), "s.matches(p)", [("s", ('s', 'abc%d' % i)), ("p", ('s', p_))]))
            if i % 3 == 0:
                cases.append(exec_case(len(cases), "matches('xyz%d', %s)" % (i, render_literal(('s', p_)))))
        out = drv.run(cases, 'regex')
        for c, r in zip(cases, out):
            res.evaluations += 1
            res.nt(c["src"] + str(c.get("vars")))
            o = check_total(res, c, r, 'matches() with many distinct patterns in one process')
            res.count("regex_outcome:" + (o[1] if o[0] == 'err' else o[0]))
        res.exhaustive_done['regex-pattern-sequence'] = True
    elif kind == 'builtins':
        cases = []
        fns = FUNCS + ["va", "h1_v", "m0_v", "ma", "o0_i", "h1_D", "h1_T", "h1_s", "t"]
        for fi, f in enumerate(fns):
            for vi, v in enumerate(POOL):
                if (fi + vi) % 2 != unit[1]:
                    continue
                cases.append(exec_case(len(cases), "%s(a)" % f, [("a", v)]))
                cases.append(exec_case(len(cases), "a.%s()" % f, [("a", v)]))
                w = POOL[(vi * 7 + fi * 13) % len(POOL)]
                cases.append(exec_case(len(cases), "a.%s(b)" % f, [("a", v), ("b", w)]))
                cases.append(exec_case(len(cases), "%s(a, b)" % f, [("a", v), ("b", w)]))
        # every macro over every pool value (ranges that are not collections, mixed-kind keys, hostile elements)
        for vi, v in enumerate(POOL):
            if vi % 2 != unit[1]:
                continue
            for src in ("a.all(x, x == x)", "a.exists(x, x != x)", "a.exists_one(x, true)", "a.map(x, x)", "a.map(x, x == a, [x])",
                        "a.filter(x, x in a)", "[a, a].map(x, x.map(y, y))", "a.all(x, a.exists(y, y == x))"):
                cases.append(exec_case(len(cases), src, [("a", v)]))
        for part in chunks(cases, 8000):
            out = drv.run(part, 'builtins')
            for c, r in zip(part, out):
                res.evaluations += 1
                res.nt(c["src"] + str(c["vars"]))
                o = check_total(res, c, r, 'built-in on a pool value')
                res.count("outcome:" + (o[1] if o[0] == 'err' else o[0]))
        res.exhaustive_done['builtins-x-pool'] = True
        res.sample({"src": cases[11]["src"], "vars": cases[11]["vars"]}, cap=1)
    elif kind == 'substr':
        # every pair of short strings / byte strings / lists over a tiny alphabet under the searching and slicing
        # built-ins and operators (needle longer than the haystack, needle's first unit near the end, empty ones,
        # multi-byte units): scanning code that slices by offsets is exercised at every overlap
        import itertools as _it
        units_s = ['a', 'b', 'é']
        strs = [''.join(c) for n in range(0, 4) for c in _it.product(units_s, repeat=n)]
        cases = []
        idx = 0
        for a in strs:
            for b in strs:
                idx += 1
                if idx % 2 != unit[1]:
                    continue
                for mk in (lambda t: ('s', t), lambda t: ('y', t.encode('utf-8')), lambda t: ('l', [('s', ch) for ch in t])):
                    va, vb = mk(a), mk(b)
                    for src in ("a.contains(b)", "a.startsWith(b)", "a.endsWith(b)", "b in a", "a + b", "a == b", "a < b", "a.matches(b)",
                                "contains(a, b)", "a[size(b)]", "size(a + b) - size(b)"):
                        if va[0] == 'l' and src in ("a.startsWith(b)", "a.endsWith(b)", "a.matches(b)", "a < b") and idx % 7:
                            continue
                        cases.append(exec_case(len(cases), src, [("a", va), ("b", vb)]))
        for partc in chunks(cases, 8000):
            out = drv.run(partc, 'substr')
            for c, r in zip(partc, out):
                res.evaluations += 1
                res.nt(c["src"] + str(c.get("vars")))
                o = check_total(res, c, r, 'searching / slicing built-in on a pair of short sequences')
                res.count("substr_outcome:" + (o[1] if o[0] == 'err' else o[0]))
        res.exhaustive_done['sequence-pairs-len-le-3-x-search-built-ins'] = True
    elif kind == 'textargs':
        # text-consuming built-ins and every typed extractor on texts that stress their parsers and their error
        # paths: digit runs beyond every machine width (i64, u64, i128, f64) in every numeric / duration /
        # timestamp position, and long non-ASCII texts at every byte alignment - alone and inside wrongly typed
        # receivers, so that error messages which quote, cut or pad the offending value are exercised too
        texts = []
        for n in (1, 18, 19, 20, 21, 38, 39, 40, 41, 64, 100, 310, 400, 1200):
            for d in ('9' * n, '1' + '0' * (n - 1) if n > 1 else '7'):
                texts += [d, '-' + d, d + 'u', d + '.5', '0.' + d, d + '.' + d, '1e' + d, '1e-' + d, d + 'e1', '0x' + d, '-0x' + d,
                          d + 'h', d + 'm', d + 's', '-' + d + 'ms', d + 'us', d + 'ns', '1.' + d + 's', d + '.' + d + 'h', '1h' + d + 's',
                          '2020-01-01T00:00:00.' + d + 'Z', d + '-01-01T00:00:00Z', '2020-01-01T00:00:' + d + 'Z',
                          '2020-01-01T00:00:00+' + d + ':00', '2020-01-' + d + 'T00:00:00Z']
        ali = []
        for k in range(4):
            for ch in ('é', '日', '𝄞', '\u0301'):
                for n in (20, 27, 40, 64, 100, 300):
                    ali.append('x' * k + ch * n)
        part = unit[1]
        fns = FUNCS + ["h1_s", "h1_i", "h1_y", "h1_l", "m0_s", "h2_is", "va"]
        cases = []
        for ti, t in enumerate(texts):
            v = ('s', t)
            for fi, f in enumerate(fns):
                if (ti + fi) % 4 != part:
                    continue
                cases.append(exec_case(len(cases), "%s(a)" % f, [("a", v)]))
                cases.append(exec_case(len(cases), "a.%s()" % f, [("a", v)]))
                if f in ('duration', 'timestamp', 'int', 'uint', 'double', 'string', 'bytes'):
                    cases.append(exec_case(len(cases), "%s(%s)" % (f, render_literal(v))))
                    cases.append(exec_case(len(cases), "%s(bytes(a))" % f, [("a", v)]))
        for ti, t in enumerate(ali):
            v = ('s', t)
            wraps = [("a", v), ("a", ('l', [v])), ("a", ('m', [(v, ('i', 1))])), ("a", ('m', [(('s', 'k'), v)])), ("a", ('y', t.encode('utf-8'))),
                     ("a", ('l', [('i', 1), v, ('l', [v])]))]
            for fi, f in enumerate(fns):
                if (ti + fi) % 4 != part:
                    continue
                for w in wraps:
                    cases.append(exec_case(len(cases), "%s(a)" % f, [w]))
                    cases.append(exec_case(len(cases), "a.%s()" % f, [w]))
                    cases.append(exec_case(len(cases), "a.%s('x')" % f, [w]))
                    cases.append(exec_case(len(cases), "'x'.%s(a)" % f, [w]))
                    cases.append(exec_case(len(cases), "%s(1, a)" % f, [w]))
            for src in ("a + 1", "1 - a", "a[a]", "-a", "!a", "a ? 1 : 2", "a.b", "has(a.b)", "a in a", "a < 1", "[1][a]", "{1: 2}[a]", "a.all(x, x)",
                        "a.map(x, x + 1)", "a && true", "1u * a"):
                if ti % 4 != part:
                    continue
                for w in wraps:
                    cases.append(exec_case(len(cases), src, [w]))
        for partc in chunks(cases, 8000):
            out = drv.run(partc, 'textargs')
            for c, r in zip(partc, out):
                res.evaluations += 1
                res.nt(c["src"] + str(c.get("vars")))
                o = check_total(res, c, r, 'built-in / operator on a hostile text')
                res.count("textargs_outcome:" + (o[1] if o[0] == 'err' else o[0]))
        res.exhaustive_done['text-built-ins-x-digit-runs-and-alignments'] = True
    elif kind == 'programs':
        cases = []
        for _ in range(2000):
            g = UntypedGen(rng)
            e = g.gen(rng.choice([1, 2, 3, 4, 5, 6, 8]))
            try:
                src = render_min(e, rng, 0.02) if rng.random() < 0.85 else render_full(e)
            except ValueError:
                continue
            names = rng.sample(IDENTS, rng.randint(2, 8))
            ctx = [(n, rng.choice(POOL) if rng.random() < 0.7 else rnd_value(rng, 2)) for n in names]
            opts = {}
            if rng.random() < 0.1:
                opts["overrides"] = [rng.choice(["size", "contains", "string", "t"])]
            c = exec_case(len(cases), src, ctx, **opts)
            c["_ops"] = count_ops(e)
            cases.append(c)
        for c in cases:
            c.pop("_nt", None)
        out = drv.run([{k: v for k, v in c.items() if k != "_ops"} for c in cases], 'programs')
        for c, r in zip(cases, out):
            res.evaluations += 1
            if c["_ops"] >= 2:
                res.nt(c["src"] + str(c.get("vars")))
            o = check_total(res, {k: v for k, v in c.items() if k != "_ops"}, r, 'generated program')
            res.count("outcome:" + (o[1] if o[0] == 'err' else o[0]))
            if o[0] == 'err':
                res.see("error_variants", o[2])
            res.count("steps_total", (r or {}).get("steps", 0) if isinstance(r, dict) else 0)
        res.sample({"src": cases[5]["src"][:300], "vars": cases[5].get("vars")}, cap=2)


def recheck(cases, out, res):
    for c, r in zip(cases, out):
        print("observed:", str(r)[:1500])
        if c.get("op") == "valueop":
            for op in VALUE_OPS:
                x = r.get(op)
                if isinstance(x, dict) and 'panic' in x:
                    res.violation('panic', 'replay', crash_sig(outcome(x)), c)
        else:
            check_total(res, c, r, 'replay')


def extra_stages(tier, seed, scratch, total, notes):
    """Thorough tier: replay part of the corpus through an AddressSanitizer build of the driver. A report
    aborts the driver; the in-flight case is then recorded as an abort whose stderr names the sanitizer."""
    if tier != 'thorough':
        return
    import runner
    try:
        binary, env, note = runner.build_variant('asan')
    except runner.Inconclusive as e:
        notes.append({"stage": "asan", "result": "inconclusive (toolchain): " + str(e)[:300]})
        return
    # --- plain release build (overflow checks and debug assertions off): the verdict of a panic monitor
    # can flip between build flavours, so both are exercised
    try:
        rel = runner.build_driver("release")
        subr = [u for u in units('quick', seed) if u[0] in ('valueop', 'builtins', 'indexing')] + [('programs', 200 + i) for i in range(16)]
        tr = runner.run_units_with(__name__, subr, rel, os.path.join(scratch, "release"), seed, 'quick')
        notes.append({"stage": "release-build (overflow checks off)", "units": len(subr), "executions": tr.evaluations, "violations": len(tr.violations)})
        tr.observed = {"release:" + k: v for k, v in tr.observed.items() if not isinstance(v, set)}
        total.merge(tr)
    except runner.Inconclusive as e:
        notes.append({"stage": "release-build", "result": "inconclusive: " + str(e)[:200]})
    sub = [u for u in units('quick', seed) if u[0] in ('valueop', 'builtins', 'indexing')][::2] + [('programs', i) for i in range(12)]
    t = runner.run_units_with(__name__, sub, binary, os.path.join(scratch, "asan"), seed + 1000, 'quick', env=env)
    notes.append({"stage": "asan", "build": note, "units": len(sub), "executions": t.evaluations,
                  "sanitizer_reports": sum(1 for v in t.violations if 'Sanitizer' in v["sig"][2]),
                  "statement": "no AddressSanitizer report on these executions (not a proof of memory safety)" if not any('Sanitizer' in v["sig"][2] for v in t.violations) else "AddressSanitizer reported (see violations)"})
    t.observed = {"asan:" + k: v for k, v in t.observed.items() if not isinstance(v, set)}
    total.merge(t)
    # --- Miri: the direct Value operators on a sample of pool pairs (no parsing involved)
    try:
        runner._alt_repo()
        from concurrent.futures import ProcessPoolExecutor
        rng = rng_for(seed, 'C02', 'miri')
        jobs = []
        # programs for the interpreter under Miri: parsed natively, executed as public ASTs (astexec)
        native = runner.Driver(runner.build_driver("mon"), os.path.join(scratch, "miri-prep"))
        prog_cases = []
        for _ in range(400):
            g = UntypedGen(rng)
            e = g.gen(rng.choice([1, 2, 3, 4]))
            try:
                prog_cases.append({"id": len(prog_cases), "op": "parse", "src": render_min(e)})
            except ValueError:
                pass
        parsed = native.run(prog_cases, "parse")
        asts = [(c["src"], p_["ast"]) for c, p_ in zip(prog_cases, parsed) if isinstance(p_, dict) and "ast" in p_]
        for m in range(8):
            cases = []
            for _ in range(160):
                a, b = rng.choice(POOL), rng.choice(POOL)
                cases.append({"id": len(cases), "op": "valueop", "a": to_json(a), "b": to_json(b)})
            for src, ast in asts[m::8][:40]:
                names = rng.sample(IDENTS, rng.randint(2, 6))
                cases.append({"id": len(cases), "op": "astexec", "ast": ast, "src": src,
                              "vars": [[n, to_json(rng.choice(POOL))] for n in names]})
            jobs.append((cases, os.path.join(scratch, "miri%d" % m), 1 + m, runner.HARNESS, runner.TARGET + "-miri"))
        import time as _t
        t0 = _t.time()
        results = [_miri_valueops(jobs[0])]
        with ProcessPoolExecutor(max_workers=7) as ex:
            results += list(ex.map(_miri_valueops, jobs[1:]))
        mt = runner.UnitResult()
        for r in results:
            mt.merge(r)
        notes.append({"stage": "miri", "processes": len(jobs), "value_pairs": 8 * 160, "programs_as_ast": mt.observed.get("astexec_programs", 0),
                      "wall_s": round(_t.time() - t0, 1), "reports": len(mt.violations), "inconclusive": mt.inconclusive[:3],
                      "statement": "no undefined behaviour reported by Miri on these direct Value operator calls and pre-parsed programs" if not mt.violations else "Miri reported (see violations)"})
        mt.observed = {"miri:" + k: v for k, v in mt.observed.items() if not isinstance(v, set)}
        total.merge(mt)
    except runner.Inconclusive as e:
        notes.append({"stage": "miri", "result": "inconclusive (toolchain): " + str(e)[:300]})


def _miri_valueops(args):
    import runner
    cases, scratch, mseed, harness, tdir = args
    env = runner.cargo_env()
    env["MIRIFLAGS"] = "-Zmiri-disable-isolation -Zmiri-seed=%d" % mseed
    drv = runner.Driver(None, scratch, env=env, wrapper=["cargo", "+nightly", "miri", "run", "--offline", "--target-dir", tdir, "--"], cwd=harness)
    res = runner.UnitResult()
    try:
        out = drv.run(cases, "miri", watchdog=1500)
    except runner.Inconclusive as e:
        res.inconclusive.append("miri: " + str(e)[:300])
        return res
    for c, r in zip(cases, out):
        res.evaluations += 1
        if c["op"] == "astexec":
            res.nt("miri|" + c["src"] + str(c["vars"]))
            res.count("astexec_programs")
            check_total(res, c, r, 'program executed as a public AST (Miri)')
            continue
        res.nt("miri|" + str(c["a"]) + "|" + str(c["b"]))
        if not isinstance(r, dict) or 'add' not in r:
            o = outcome(r)
            if is_crash(o):
                res.violation(o[0], 'direct Value operator (Miri)', crash_sig(o), c, observed=list(o)[:2] + [str(o[2:])[:600]])
            else:
                res.inconclusive.append("miri record: " + str(r)[:120])
            continue
        for op in VALUE_OPS:
            x = r.get(op)
            res.count("valueop:" + op)
            if isinstance(x, dict) and 'panic' in x:
                res.violation('panic', 'direct Value operator ' + op, crash_sig(outcome(x)), c, observed=x)
    res.inconclusive.extend(drv.inconclusive)
    return res
