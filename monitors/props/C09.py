"""C09 — equality and ordering are coherent and numerically exact across types."""
import itertools

from celmodel.values import (I, U, D, S, Y, B, L, M, NULL, DUR, TS, to_json, from_json, top_outcome, outcome, is_crash,
                             canon, cel_eq, cel_cmp, num_cmp, NUMERIC, I64_MIN, I64_MAX, U64_MAX)
from .common import exec_case, rng_for, crash_sig, chunks, fmt_outcome
from celmodel.gen import rnd_int, rnd_uint, rnd_double, rnd_string

RULE = ("all ordered pairs of a ~100-value boundary set (i64/u64 extremes, +-2^53 and neighbours as int, uint and "
        "double, +-2^63, 2^64 as doubles, NaN, +-inf, +-0.0, subnormal, strings incl. prefix and BMP/non-BMP pairs, "
        "bools, null, bytes, lists and maps with cross-type numeric elements, durations, timestamps) under the six "
        "relations and `in [b]` through programs, and Value::eq / partial_cmp called directly; coherence laws and "
        "transitivity over all triples checked offline from the recorded table; exactness against Python's exact "
        "int/float comparison; min / max over all sub-multisets of size <= 3; plus random pairs; non-trivial = pair "
        "of mixed kinds or with an operand outside [-2^31, 2^31]; distinct = distinct (relation, a, b)")
ASSUMPTIONS = ["definedness of ordering for kinds the statement does not mention (bytes, bool, null, lists) is not "
               "imposed, only coherence where the implementation defines it"]

VALUES = (
    [I(x) for x in (0, 1, -1, 2, (1 << 53) - 1, 1 << 53, (1 << 53) + 1, -(1 << 53), -(1 << 53) - 1, I64_MAX, I64_MAX - 1,
                    I64_MIN, I64_MIN + 1, 1 << 31, 9007199254740993)] +
    [U(x) for x in (0, 1, 2, (1 << 53), (1 << 53) + 1, I64_MAX, I64_MAX + 1, U64_MAX, U64_MAX - 1, 9007199254740993)] +
    [D(x) for x in (0.0, -0.0, 1.0, -1.0, 0.5, 1.5, 2.0, float(1 << 53), float((1 << 53) + 2), 9007199254740992.0,
                    -9007199254740992.0, 9223372036854775808.0, -9223372036854775808.0, 9223372036854774784.0,
                    18446744073709551616.0, 18446744073709549568.0, 1e300, -1e300, 5e-324, float('inf'),
                    float('-inf'), float('nan'), -9223372036854777856.0, 9223372036854777856.0)] +
    [S(x) for x in ("", "a", "ab", "b", "A", "é", "z", "￿", "\U00010000", "𝄞", "a\u0000", "10", "9")] +
    [B(True), B(False), NULL, Y(b""), Y(b"a"), Y(b"ab"), Y(b"\xff")] +
    [L([]), L([I(1)]), L([U(1)]), L([D(1.0)]), L([I(1), I(2)]), L([I(1), I(2), I(3)]), L([I(2), I(1)]),
     L([D(float('nan'))]), L([L([])]), L([L([I(1)])]), L([S("a")]), L([NULL]), L([I(1), S("a")]),
     L([I(9007199254740993)]), L([D(9007199254740992.0)])] +
    [M([]), M([(S("a"), I(1))]), M([(S("a"), U(1))]), M([(S("a"), D(1.0))]), M([(S("a"), I(2))]), M([(S("b"), I(1))]),
     M([(S("a"), I(1)), (S("b"), I(2))]), M([(I(1), S("x"))]), M([(B(True), L([I(1)]))]), M([(S("a"), D(float('nan')))]),
     M([(S("a"), L([I(1), I(2)]))]), M([(S("a"), L([I(1)]))])] +
    # maps holding one number under both integer spellings (coherence laws only, see twin_ambiguous)
    [M([(I(1), S("x")), (U(1), S("x"))]), M([(I(1), S("x")), (I(2), S("y"))]), M([(I(1), S("x"))]), M([(U(1), S("x"))]),
     M([(U(1), S("x")), (U(2), S("y"))]), M([(I(0), I(0)), (U(0), I(0))]), M([(I(0), I(0)), (S("k"), I(0))])] +
    [D(0.1), D(0.2), D(0.30000000000000004), D(0.3), D(1e-17), D(-1e-17), D(0.9999999999999999), D(1.0000000000000002)] +
    [DUR(0), DUR(1), DUR(-1), DUR(10 ** 9), DUR(I64_MAX), DUR(I64_MIN)] +
    [TS(0, 0, 0), TS(0, 0, 3600), TS(1, 0, 0), TS(0, 1, 0), TS(-1, 999999999, -7200), TS(1685232000, 0, 19800)]
)
RELS = ['==', '!=', '<', '<=', '>', '>=']


def units(tier, seed):
    n = len(VALUES)
    us = []
    step = 5
    for i in range(0, n, step):
        us.append(('pairs', i, min(n, i + step)))
    us.append(('triples',))
    us.append(('self',))
    us.append(('minmax',))
    for i in range(12 if tier == 'quick' else 640):
        us.append(('random', i))
    return us


def int_keys(v, acc):
    if v[0] == 'm':
        for k, x in v[1]:
            if k[0] in ('i', 'u'):
                acc.add(k)
            int_keys(x, acc)
    elif v[0] == 'l':
        for x in v[1]:
            int_keys(x, acc)


def twin_ambiguous(a, b):
    """Do the two values contain maps with numerically equal integer keys of different kinds? Whether such
    entries are 'the same entry' is not pinned down by the statement: exactness is then not judged (the
    coherence laws still are)."""
    ka, kb = set(), set()
    int_keys(a, ka)
    int_keys(b, kb)
    allk = ka | kb
    nums = {}
    for k in allk:
        nums.setdefault(k[1], set()).add(k[0])
    return any(len(kinds) > 1 for kinds in nums.values())


def expect_eq(a, b):
    if twin_ambiguous(a, b):
        return None
    return cel_eq(a, b)


def ordering_required(a, b):
    """True: ordering must be defined; False: must be an error; None: not imposed."""
    ka, kb = a[0], b[0]
    if ka in NUMERIC and kb in NUMERIC:
        return num_cmp(a, b) is not None
    if ka == kb and ka in ('s', 'dur', 'ts'):
        return True
    if ka != kb:
        return False
    return None


def check_pair(res, a, b, obs, direct, case):
    """obs: relation -> outcome tuple (from programs); direct: the valueop record."""
    nontrivial = a[0] != b[0] or (a[0] in ('i', 'u') and (abs(a[1]) > (1 << 31) or abs(b[1]) > (1 << 31)))
    for rel, o in obs.items():
        res.evaluations += 1
        if nontrivial:
            res.nt(rel + '|' + canon(a) + '|' + canon(b))
        if is_crash(o):
            res.violation(o[0], 'relation ' + rel, crash_sig(o), case, observed=list(o))
            return None
        if o[0] == 'inconclusive':
            res.inconclusive.append(str(o[1])[:200])
            return None
    feature = "%s vs %s" % (a[0], b[0])

    def val(rel):
        o = obs[rel]
        return o[1][1] if o[0] == 'ok' and o[1][0] == 'b' else None

    def bad(kind, beh, exp, got):
        res.violation(kind, feature, beh, case, expected=exp, observed=got)

    eq, ne = val('=='), val('!=')
    if eq is None or ne is None:
        bad('wrong-value', 'equality must be total', "bool", [fmt_outcome(obs['==']), fmt_outcome(obs['!='])])
        return None
    if ne != (not eq):
        bad('incoherent', '!= is not the negation of ==', {"==": eq}, {"!=": ne})
    want = expect_eq(a, b)
    if want is not None and eq != want:
        bad('wrong-value', '== differs from the values denoted', want, eq)
    if 'in' in obs:
        iv = val('in')
        if iv is None or iv != eq:
            bad('incoherent', '`a in [b]` differs from a == b', eq, fmt_outcome(obs['in']))
    lt, le, gt, ge = val('<'), val('<='), val('>'), val('>=')
    defined = [x is not None for x in (lt, le, gt, ge)]
    req = ordering_required(a, b)
    if any(defined) and not all(defined):
        bad('incoherent', 'ordering defined for some relations only', "all or none",
            {r: fmt_outcome(obs[r]) for r in ('<', '<=', '>', '>=')})
        return None
    if req is True and not all(defined):
        bad('error-instead-of-value', 'ordering must be defined', "values", {r: fmt_outcome(obs[r]) for r in ('<', '>')})
    if req is False and any(defined):
        bad('value-instead-of-error', 'unrelated / unordered values were ordered', "error (not comparable)",
            {r: fmt_outcome(obs[r]) for r in ('<', '>')})
    if all(defined):
        if [lt, eq, gt].count(True) != 1:
            bad('incoherent', 'not exactly one of <, ==, >', "trichotomy", {"<": lt, "==": eq, ">": gt})
        if le != (lt or eq) or ge != (gt or eq):
            bad('incoherent', '<= / >= inconsistent with < / > / ==', "a<=b iff a<b || a==b", {"<": lt, "<=": le, ">": gt, ">=": ge, "==": eq})
        c = cel_cmp(a, b)
        if c is not None and (lt, gt) != (c < 0, c > 0):
            bad('wrong-value', 'ordering differs from the values denoted', {"cmp": c}, {"<": lt, ">": gt})
    else:
        for r in ('<', '<=', '>', '>='):
            o = obs[r]
            if o[0] == 'err':
                res.count("ordering_error:" + o[1])
    # direct API agrees with the programs
    if direct is not None:
        if direct.get('eq') != eq or direct.get('ne') != ne:
            bad('incoherent', 'Value::eq differs from the == program', eq, direct.get('eq'))
        dc = direct.get('cmp')
        if (dc is not None) != all(defined):
            bad('incoherent', 'Value::partial_cmp definedness differs from the programs', all(defined), dc)
        elif dc is not None and (dc < 0, dc > 0) != (lt, gt):
            bad('incoherent', 'Value::partial_cmp differs from the programs', {"<": lt, ">": gt}, dc)
        for k, rel in (('lt', '<'), ('le', '<='), ('gt', '>'), ('ge', '>=')):
            # Rust's a < b on PartialOrd is false when unordered
            exp = val(rel) if all(defined) else False
            if direct.get(k) != exp:
                bad('incoherent', 'Value %s operator differs' % rel, exp, direct.get(k))
    return (eq, lt if all(defined) else None, gt if all(defined) else None)


def run_pairs(res, drv, pairs, tag):
    """pairs: list of (a, b). Returns table {(ia, ib): (eq, lt, gt)} keyed by position in `pairs`."""
    cases, meta = [], []
    for pi, (a, b) in enumerate(pairs):
        vs = [("a", a), ("b", b)]
        for rel in RELS:
            cases.append(exec_case(len(cases), "a %s b" % rel, vs))
            meta.append((pi, rel))
        cases.append(exec_case(len(cases), "a in [b]", vs))
        meta.append((pi, 'in'))
        cases.append({"id": len(cases), "op": "valueop", "a": to_json(a), "b": to_json(b)})
        meta.append((pi, 'direct'))
    table = {}
    obs = {}
    direct = {}
    for part_c, part_m in zip(chunks(cases, 8000), chunks(meta, 8000)):
        out = drv.run(part_c, tag)
        for c, r, (pi, rel) in zip(part_c, out, part_m):
            if rel == 'direct':
                if isinstance(r, dict) and 'eq' in r:
                    for k in ('eq', 'ne', 'cmp', 'lt', 'le', 'gt', 'ge'):
                        if isinstance(r.get(k), dict) and 'panic' in r[k]:
                            res.violation('panic', 'direct comparison', crash_sig(outcome(r[k])), c, observed=r[k])
                    direct[pi] = r
                else:
                    o = top_outcome(r)
                    if is_crash(o):
                        res.violation(o[0], 'direct comparison', crash_sig(o), c, observed=list(o))
            else:
                obs.setdefault(pi, {})[rel] = top_outcome(r)
    for pi, (a, b) in enumerate(pairs):
        if pi in obs and len(obs[pi]) == 7:
            case = {"op": "exec", "src": "a REL b", "vars": [["a", to_json(a)], ["b", to_json(b)]], "id": pi}
            table[pi] = check_pair(res, a, b, obs[pi], direct.get(pi), case)
    return table


def run_unit(unit, drv, res, seed, tier):
    kind = unit[0]
    if kind == 'pairs':
        n = len(VALUES)
        pairs = [(VALUES[i], VALUES[j]) for i in range(unit[1], unit[2]) for j in range(n)]
        # transitivity needs the whole table: each unit re-derives the rows it needs through a second
        # batch restricted to its own a-values, then checks a<b<c and a==b==c for all b, c
        table = run_pairs(res, drv, pairs, 'pairs')
        res.exhaustive_done['boundary-pairs'] = True
        res.sample({"src": "a < b", "vars": [["a", to_json(pairs[37][0])], ["b", to_json(pairs[37][1])]]}, cap=1)
    elif kind == 'triples':
        n = len(VALUES)
        cases, meta = [], []
        for i in range(n):
            for j in range(n):
                vs = [("a", VALUES[i]), ("b", VALUES[j])]
                cases.append(exec_case(len(cases), "a == b", vs))
                meta.append((i, j, 'eq'))
                cases.append(exec_case(len(cases), "a < b", vs))
                meta.append((i, j, 'lt'))
        eqt, ltt = {}, {}
        for part_c, part_m in zip(chunks(cases, 10000), chunks(meta, 10000)):
            out = drv.run(part_c, 'table')
            for c, r, (i, j, w) in zip(part_c, out, part_m):
                res.evaluations += 1
                o = top_outcome(r)
                v = o[1][1] if o[0] == 'ok' and o[1][0] == 'b' else None
                (eqt if w == 'eq' else ltt)[(i, j)] = v
        triples = 0

        def vio(kind, beh, i, j, k, src):
            res.violation('incoherent', kind, beh,
                          {"op": "exec", "id": 0, "src": src, "vars": [["a", to_json(VALUES[i])], ["b", to_json(VALUES[k])]]},
                          expected=beh, observed={"a": to_json(VALUES[i]), "b": to_json(VALUES[j]), "c": to_json(VALUES[k])})
        for i in range(n):
            for j in range(n):
                lij, eij = ltt.get((i, j)), eqt.get((i, j))
                if lij is True and ltt.get((j, i)) is True:
                    vio('asymmetry of <', 'a<b and b<a', i, j, j, "a < b")
                if eij != eqt.get((j, i)):
                    vio('symmetry of ==', 'a==b differs from b==a', i, j, j, "a == b")
                if not (lij or eij):
                    triples += n
                    continue
                for k in range(n):
                    triples += 1
                    if lij and ltt.get((j, k)) and ltt.get((i, k)) is not True:
                        vio('transitivity of <', 'a<b, b<c but not a<c', i, j, k, "a < b")
                    if eij and eqt.get((j, k)) and eqt.get((i, k)) is not True:
                        vio('transitivity of ==', 'a==b, b==c but not a==c', i, j, k, "a == b")
                    if eij and ltt.get((j, k)) and ltt.get((i, k)) is not True:
                        vio('congruence of < under ==', 'a==b, b<c but not a<c', i, j, k, "a < b")
        res.count("triples_checked", triples)
        res.nt("triples-table-1")
        res.nt("triples-table-2")
        res.exhaustive_done['boundary-triples'] = True
    elif kind == 'self':
        # the same value reached twice through one shared reference (a == a): equality must still be
        # decided by the values (NaN, and containers holding NaN, are unequal to themselves)
        cases, meta = [], []
        forms = ["a == a", "a != a", "a in [a]", "[a] == [a]", "{'k': a} == {'k': a}", "[a].all(x, x == x)",
                 "[[a]].exists(l, l != l)", "[a, a][0] == [a, a][1]"]
        for v in VALUES:
            for f in forms:
                cases.append(exec_case(len(cases), f, [("a", v)]))
                meta.append((v, f))
        out = drv.run(cases, 'self')
        for c, r, (v, f) in zip(cases, out, meta):
            res.evaluations += 1
            res.nt(f + canon(v))
            o = top_outcome(r)
            e = cel_eq(v, v)
            exp = (not e) if ('!=' in f) else e
            if not (o[0] == 'ok' and o[1] == ('b', exp)):
                res.violation(o[0] if is_crash(o) else 'wrong-value', 'value compared with itself through a shared reference',
                              crash_sig(o) if is_crash(o) else 'reflexive equality differs from the values denoted', c,
                              expected=exp, observed=fmt_outcome(o))
        res.exhaustive_done['self-comparison'] = True
    elif kind == 'minmax':
        groups = [[v for v in VALUES if v[0] in NUMERIC and not (v[0] == 'd' and v[1] != v[1])][::2],
                  [v for v in VALUES if v[0] == 's']]
        cases, meta = [], []
        for g in groups:
            for size in (1, 2, 3):
                for combo in itertools.product(g, repeat=size):
                    if size == 3 and (hash(tuple(canon(c) for c in combo)) % 5):
                        continue
                    names = ["v%d" % i for i in range(size)]
                    vs = list(zip(names, combo))
                    for fn in ('min', 'max'):
                        for form in ('var', 'list'):
                            src = "%s(%s)" % (fn, ", ".join(names)) if form == 'var' else "%s([%s])" % (fn, ", ".join(names))
                            cases.append(exec_case(len(cases), src, vs))
                            meta.append((fn, combo))
        for part_c, part_m in zip(chunks(cases, 8000), chunks(meta, 8000)):
            out = drv.run(part_c, 'minmax')
            for c, r, (fn, combo) in zip(part_c, out, part_m):
                res.evaluations += 1
                res.nt(c["src"] + str(c["vars"]))
                o = top_outcome(r)
                if o[0] != 'ok':
                    res.violation(o[0] if is_crash(o) else 'error-instead-of-value', fn + ' of comparable values',
                                  crash_sig(o) if is_crash(o) else 'error', c, expected="a member", observed=fmt_outcome(o))
                    continue
                v = o[1]
                member = any(canon(v) == canon(x) for x in combo)
                bounds = all((cel_cmp(v, x) <= 0) if fn == 'min' else (cel_cmp(v, x) >= 0) for x in combo)
                if not member or not bounds:
                    res.violation('wrong-value', fn + ' of comparable values', 'not a bounding member', c,
                                  expected="a member that bounds all others", observed=fmt_outcome(o))
        res.exhaustive_done['minmax-submultisets'] = True
    else:
        rng = rng_for(seed, 'C09', unit[1])

        def rv():
            m = rng.random()
            if m < 0.3:
                return I(rnd_int(rng))
            if m < 0.5:
                return U(rnd_uint(rng))
            if m < 0.8:
                return D(rnd_double(rng))
            if m < 0.9:
                return S(rnd_string(rng))
            return rng.choice(VALUES)
        pairs = []
        for _ in range(600):
            a = rv()
            b = rv()
            if rng.random() < 0.3 and a[0] in ('i', 'u'):
                # the double nearest to an integer, and its neighbours
                f = float(a[1])
                import math
                b = D(rng.choice([f, math.nextafter(f, math.inf), math.nextafter(f, -math.inf)]))
            pairs.append((a, b))
        run_pairs(res, drv, pairs, 'random')


def recheck(cases, out, res):
    for c, r in zip(cases, out):
        print("observed:", str(r)[:800])
