"""C20 — function calls bind receiver and arguments predictably."""
from celmodel.values import (I, U, D, S, Y, B, L, M, NULL, DUR, TS, to_json, top_outcome, is_crash, struct_eq, canon)
from celmodel.refeval import run_once, Unsupported
from celmodel.hostmodel import make_host, CATALOGUE
from celmodel.gen import hostile_pool
from celmodel.expr import render_min
from .common import exec_case, rng_for, crash_sig, chunks, fmt_outcome, same_outcome, mismatch_kind, norm_log

RULE = ("(a) every receiver-style built-in (size, contains, string, double, int, uint, startsWith, endsWith, matches, "
        "the ten timestamp accessors) x receivers and arguments from the hostile value pool, as x.f(args) and f(x, args): "
        "equal value or same error class, also for receivers that contain the function's own name as key / element / text; (b) a catalogue of host functions of arity 0-9 over every supported parameter "
        "type and extractor (This<T>, This<Option<T>>, This<Value>, Arguments, Identifier, Expression, with and without "
        "&FunctionContext) called with 0..arity+2 arguments of matching and mismatching kinds in both styles: outcome "
        "and the typed argument log must equal the signature model (error and no invocation on a missing / mistyped "
        "argument, otherwise exactly one invocation with the evaluated arguments in order); (c) host functions "
        "registered under built-in names are the ones invoked; non-trivial = call with >= 2 arguments or a mismatch; "
        "distinct = distinct (source, context)")
ASSUMPTIONS = ["surplus arguments: an argument-count error or a correct invocation are both accepted",
               "min / max / bytes / duration / timestamp take no receiver and are outside clause (a)"]

HOST = make_host()
POOL = hostile_pool()
THIS_BUILTINS = [("size", 0), ("contains", 1), ("string", 0), ("double", 0), ("int", 0), ("uint", 0), ("startsWith", 1),
                 ("endsWith", 1), ("matches", 1), ("getFullYear", 0), ("getMonth", 0), ("getDayOfYear", 0), ("getDayOfMonth", 0),
                 ("getDate", 0), ("getDayOfWeek", 0), ("getHours", 0), ("getMinutes", 0), ("getSeconds", 0), ("getMilliseconds", 0)]

KIND_VALUES = {
    'i': [I(0), I(-5), I(9223372036854775807)], 'u': [U(0), U(7), U(18446744073709551615)], 'd': [D(1.5), D(float('nan'))],
    's': [S(""), S("héllo")] + [S('x' * k + 'é' * 60) for k in range(4)], 'y': [Y(b""), Y(b"\xff"), Y(('x' + 'é' * 70).encode())],
    'b': [B(True), B(False)], 'l': [L([]), L([I(1), S("x")]), L([S('xx' + '日' * 40)])],
    'D': [DUR(0), DUR(-1500000000)], 'T': [TS(0, 0, 0), TS(1685232000, 5, 3600)], 'n': [NULL], 'm': [M([(S("k"), I(1))])],
}
ALL_KINDS = list(KIND_VALUES)


def units(tier, seed):
    us = []
    n = len(POOL)
    for i in range(0, n, 20):
        us.append(('styles', i, min(n, i + 20)))
    names = sorted(CATALOGUE) + ['va', 'va0', 'ma', 'ex1', 'ex0', 'id1', 'id2', 'vid', 'p2_iv', 'p3_ivi', 'p3_ssv']
    for i in range(0, len(names), 6):
        us.append(('catalogue', i, min(len(names), i + 6), tier))
    us.append(('override',))
    us.append(('named',))
    return us


def run_unit(unit, drv, res, seed, tier):
    kind = unit[0]
    rng = rng_for(seed, 'C20', *unit)
    if kind == 'styles':
        cases, meta = [], []
        for vi in range(unit[1], unit[2]):
            x = POOL[vi]
            for f, nargs in THIS_BUILTINS:
                argsets = [[]] if nargs == 0 else [[POOL[(vi * 7 + k * 13 + len(f)) % len(POOL)]] for k in range(3)] + [[x]]
                for args in argsets:
                    vs = [("x", x)] + [("a%d" % i, a) for i, a in enumerate(args)]
                    an = ", ".join("a%d" % i for i in range(len(args)))
                    m = exec_case(len(cases), "x.%s(%s)" % (f, an), vs)
                    cases.append(m)
                    g = exec_case(len(cases), "%s(x%s)" % (f, (", " + an) if an else ""), vs)
                    cases.append(g)
                    meta.append((f, len(args)))
                    if (vi + len(f)) % 3 == 0:
                        # the same call two scopes down, receiver and arguments bound by macros
                        inner_an = ", ".join("q%d" % i for i in range(len(args)))
                        wrapm = "[x].map(r, %s)[0]"
                        for i in range(len(args)):
                            wrapm = wrapm % ("[a%d].map(q%d, %%s)[0]" % (i, i))
                        cases.append(exec_case(len(cases), wrapm % ("r.%s(%s)" % (f, inner_an)), vs))
                        cases.append(exec_case(len(cases), wrapm % ("%s(r%s)" % (f, (", " + inner_an) if inner_an else "")), vs))
                        meta.append((f + '@macro', len(args)))
        out = drv.run(cases, 'styles')
        for k, (f, nargs) in enumerate(meta):
            cm, cg = cases[2 * k], cases[2 * k + 1]
            om, og = top_outcome(out[2 * k]), top_outcome(out[2 * k + 1])
            res.evaluations += 2
            res.nt(cm["src"] + str(cm["vars"]))
            res.count("builtin:" + f)
            for o, c in ((om, cm), (og, cg)):
                if is_crash(o):
                    res.violation(o[0], 'built-in ' + f, crash_sig(o), c, observed=list(o))
            if is_crash(om) or is_crash(og):
                continue
            same = (om[0] == 'ok' and og[0] == 'ok' and struct_eq(om[1], og[1])) or (om[0] == 'err' and og[0] == 'err' and om[1] == og[1])
            if not same:
                res.violation('styles-differ', 'built-in ' + f, 'x.f(args) and f(x, args) disagree', [cm, cg],
                              expected={"method": fmt_outcome(om)}, observed={"global": fmt_outcome(og)})
        res.exhaustive_done['builtins-x-pool-both-styles'] = True
        res.sample({"method": cases[10]["src"], "global": cases[11]["src"], "vars": cases[10]["vars"]}, cap=1)
    elif kind == 'named':
        # receivers that contain the called function's own name (as a map key, a nested key, an element, the
        # text itself): the call still goes to the function, in both styles
        cases, meta = [], []
        fns = [(f, n) for f, n in THIS_BUILTINS] + [("m0_v", 0), ("m0_s", 0), ("m1_vv", 1), ("ma", 0)]
        for f, nargs in fns:
            others = [g for g, _ in fns if g != f][:3]
            recvs = [M([(S(f), I(7))]), M([(S(f), S("x")), (S("b"), I(2))]), M([(S(others[0]), I(1))]), M([(S(f), M([(S(f), I(1))]))]),
                     L([S(f)]), S(f), M([(S(f), L([I(1), I(2)]))]), M([(S(f), NULL)]), M([(S(g), I(i)) for i, g in enumerate([f] + others)])]
            for x in recvs:
                argsets = [[]] if nargs == 0 else [[S(f)], [S("b")], [x]]
                for args in argsets:
                    vs = [("x", x)] + [("a%d" % i, a) for i, a in enumerate(args)]
                    an = ", ".join("a%d" % i for i in range(len(args)))
                    cases.append(exec_case(len(cases), "x.%s(%s)" % (f, an), vs))
                    cases.append(exec_case(len(cases), "%s(x%s)" % (f, (", " + an) if an else ""), vs))
                    meta.append((f, len(args)))
        out = drv.run(cases, 'named')
        for k, (f, nargs) in enumerate(meta):
            cm, cg = cases[2 * k], cases[2 * k + 1]
            om, og = top_outcome(out[2 * k]), top_outcome(out[2 * k + 1])
            res.evaluations += 2
            res.nt(cm["src"] + str(cm["vars"]))
            res.count("named:" + f)
            for o, c in ((om, cm), (og, cg)):
                if is_crash(o):
                    res.violation(o[0], 'call on a receiver naming the function', crash_sig(o), c, observed=list(o))
            if is_crash(om) or is_crash(og):
                continue
            same = (om[0] == 'ok' and og[0] == 'ok' and struct_eq(om[1], og[1])) or (om[0] == 'err' and og[0] == 'err' and om[1] == og[1])
            if not same:
                res.violation('styles-differ', 'call on a receiver naming the function', 'x.f(args) and f(x, args) disagree', [cm, cg],
                              expected={"method": fmt_outcome(om)}, observed={"global": fmt_outcome(og)})
        res.exhaustive_done['receivers-naming-the-function'] = True
    elif kind == 'catalogue':
        names = (sorted(CATALOGUE) + ['va', 'va0', 'ma', 'ex1', 'ex0', 'id1', 'id2', 'vid', 'p2_iv', 'p3_ivi', 'p3_ssv'])[unit[1]:unit[2]]
        items = []
        for name in names:
            if name in CATALOGUE:
                this_kind, params, flavour = CATALOGUE[name]
            else:
                this_kind, params, flavour = {'va': (None, 'vvv', 'var'), 'va0': (None, 'vv', 'var'), 'ma': ('v', 'vv', 'this'),
                                              'ex1': (None, 'v', 'expr'), 'ex0': (None, 'v', 'expr'), 'id1': (None, 'I', 'ident'),
                                              'id2': (None, 'Iv', 'ident'), 'vid': (None, 'vI', 'ident'),
                                              'p2_iv': (None, 'iv', 'posthis'), 'p3_ivi': (None, 'ivi', 'posthis'), 'p3_ssv': (None, 'sss', 'posthis')}[name]
            arity = len(params) + (1 if flavour in ('this', 'thisopt') else 0)
            full = ([this_kind] if flavour in ('this', 'thisopt') else []) + list(params)
            reps = 6 if unit[3] == 'quick' else 150
            for nargs in range(0, arity + 3):
                for rep in range(reps):
                    vals, exprs, vs = [], [], []
                    for i in range(nargs):
                        want = full[i] if i < len(full) else 'v'
                        if want == 'I':
                            exprs.append(('id', 'ident%d' % i) if rng.random() < 0.8 else ('lit', I(3)))
                            continue
                        if want == 'v' or rng.random() < (0.0 if rep == 0 else 0.25):
                            kd = rng.choice(ALL_KINDS)       # any kind / deliberate mismatch
                        else:
                            kd = want
                        if flavour == 'thisopt' and i == 0 and rng.random() < 0.3:
                            kd = 'n'
                        v = rng.choice(KIND_VALUES[kd])
                        vs.append(("a%d" % i, v))
                        exprs.append(('call', 't', [('lit', I(i)), ('id', 'a%d' % i)]) if rng.random() < 0.5 else ('id', 'a%d' % i))
                    styles = ['global']
                    if nargs >= 1:
                        styles.append('method')
                    for st in styles:
                        e = ('call', name, exprs) if st == 'global' else ('mcall', exprs[0], name, exprs[1:])
                        if st == 'method' and exprs[0][0] == 'id' and exprs[0][1].startswith('ident'):
                            continue
                        eff = nargs - (1 if st == 'method' and flavour not in ('this', 'thisopt', 'posthis') else 0)
                        items.append((e, vs, name, nargs, arity, eff < arity))
        cases, metas = [], []
        for e, vs, name, nargs, arity, short in items:
            try:
                exp, ev = run_once(e, dict(vs), host=HOST)
            except Unsupported:
                res.count("skipped:unsupported")
                continue
            cases.append(exec_case(len(cases), render_min(e), vs))
            metas.append((exp, ev.log, name, nargs, arity, short))
        out = drv.run(cases, 'catalogue')
        for c, r, (exp, elog, name, nargs, arity, short) in zip(cases, out, metas):
            res.evaluations += 1
            if nargs >= 2 or exp[0] == 'err':
                res.nt(c["src"] + str(c.get("vars")))
            o = top_outcome(r)
            res.count("host:" + (o[1] if o[0] == 'err' else o[0]))
            res.see("host_functions_called", name)
            if is_crash(o):
                res.violation(o[0], 'host function ' + name, crash_sig(o), c, observed=list(o))
                continue
            # only what the host function itself saw is judged here (evaluation order is C07's subject)
            log = [x for x in norm_log(r.get("log")) if x and x[0] == name]
            elog = [x for x in norm_log(elog) if x and x[0] == name]
            if same_outcome(exp, o) and log == elog:
                continue
            if nargs > arity and o[0] == 'err' and o[1] == 'arg_count' and not [x for x in log if x and x[0] == name]:
                res.count("surplus-arguments:error-accepted")
                continue
            if short and o[0] == 'err' and exp[0] == 'err' and not [x for x in log if x and x[0] == name]:
                # missing arguments: "yields an execution error ... never an invocation" - which error is open
                res.count("missing-arguments:any-error-accepted")
                continue
            if not same_outcome(exp, o):
                res.violation(mismatch_kind(exp, o), 'host function ' + name.split('_')[0][:2], 'outcome differs from the signature model', c,
                              expected=fmt_outcome(exp), observed=fmt_outcome(o))
            else:
                res.violation('log-mismatch', 'host function ' + name.split('_')[0][:2], 'arguments seen by the function differ', c,
                              expected=elog, observed=log)
        res.sample({"src": cases[len(cases) // 2]["src"], "vars": cases[len(cases) // 2].get("vars")}, cap=1)
    else:
        cases, meta = [], []
        for name in ("size", "contains", "string", "startsWith", "int", "max", "getHours", "matches", "duration"):
            for src in ("%s(x)" % name, "x.%s()" % name, "%s(x, 'a')" % name, "x.%s('a')" % name, "%s()" % name,
                        "[x].map(y, %s(y))[0]" % name, "[x].map(y, y.%s())[0]" % name):
                for where in ('overrides', 'overrides_late'):
                    c = exec_case(len(cases), src, [("x", S("abc"))], **{where: [name]})
                    cases.append(c)
                    meta.append(name)
        out = drv.run(cases, 'override')
        for c, r, name in zip(cases, out, meta):
            res.evaluations += 1
            res.nt(c["src"] + str(c.get("opts")))
            o = top_outcome(r)
            log = r.get("log") or []
            called = [x for x in log if x and x[0] == 'override' and x[1] == name]
            if not (o[0] == 'ok' and o[1] == S("override:" + name) and len(called) == 1):
                res.violation(o[0] if is_crash(o) else 'override-ignored', 'host function registered under a built-in name',
                              crash_sig(o) if is_crash(o) else 'built-in still runs', c,
                              expected="override:" + name + " invoked once", observed={"res": fmt_outcome(o), "log": log})
        res.exhaustive_done['overrides'] = True


def recheck(cases, out, res):
    for c, r in zip(cases, out):
        print("observed:", str(r)[:1200])
