"""C11 — variables resolve to the innermost binding and scopes never leak."""
import itertools

from celmodel.values import I, S, B, L, to_json, from_json, top_outcome, outcome, is_crash, struct_eq, canon
from celmodel.refeval import run_once, Unsupported, CelError
from celmodel.expr import render_min
from .common import exec_case, rng_for, crash_sig, chunks, fmt_outcome, same_outcome, mismatch_kind

RULE = ("(A) every history over {define x|y|z in the innermost scope (add_variable / add_variable_from_value "
        "alternating), open an inner scope (depth <= 3), close it} of length <= 6 (quick) / <= 8 (thorough), with all "
        "three names looked up (get_variable and a one-identifier program) in the innermost scope after every step and "
        "in the parent after every close; random longer histories; names shared between a variable and a function in "
        "either definition order; oracle: a stack of dictionaries. (B) programs nesting 1-3 macros whose iteration "
        "variables come from {x, y, z}, which also name root variables, inner-scope variables and host functions; "
        "oracle: lexically scoped reference evaluator, and every root / inner binding and absence re-read unchanged "
        "after execution. ranges of length <= 3 (quick) / 4 (thorough) over 9 values that are pairwise identical or equal-but-distinguishable, observed exactly by the body. (C) one compiled program executed against 2-5 contexts in a row that bind x, y, z differently (int, list, absent), incl. forms whose range and iteration variable share a name; non-trivial = history with a redefinition or shadowing / program reusing a name; distinct = "
        "distinct history / (source, context)")
ASSUMPTIONS = ["add_function on a child scope is a documented no-op; functions are defined at the root only"]

NAMES = ['x', 'y', 'z']


def simulate(ops):
    """Expected observation list of the driver's ctxops walk: [(depth, {name: value|None})]."""
    out = []
    stack = [{}]

    def look():
        d = {}
        for n in NAMES:
            v = None
            for sc in reversed(stack):
                if n in sc:
                    v = sc[n]
                    break
            d[n] = v
        return (len(stack) - 1, d)

    out.append(look())
    for op in ops:
        if op[0] == 'def':
            stack[-1][op[1]] = op[2]
            out.append(look())
        elif op[0] == 'open':
            stack.append({})
            out.append(look())
        elif op[0] == 'close':
            stack.pop()
            out.append(look())
    while len(stack) > 1:
        stack.pop()
        out.append(look())
    return out


def valid(seq):
    d = 0
    for s in seq:
        if s == 'open':
            d += 1
            if d > 3:
                return False
        elif s == 'close':
            d -= 1
            if d < 0:
                return False
    return True


def to_ops(seq):
    ops = []
    n = 0
    for s in seq:
        if s in NAMES:
            n += 1
            ops.append(('def', s, I(n), 'add_variable' if n % 2 else 'from_value'))
        else:
            ops.append((s,))
    return ops


def units(tier, seed):
    maxlen = 6 if tier == 'quick' else 8
    us = []
    # split the exhaustive enumeration by the first two symbols
    alpha = NAMES + ['open', 'close']
    for a in alpha:
        for b in alpha:
            us.append(('hist', a, b, maxlen))
    us.append(('short',))
    us.append(('fnvar',))
    for i in range(8 if tier == 'quick' else 256):
        us.append(('randhist', i))
    for i in range(16 if tier == 'quick' else 640):
        us.append(('programs', i))
    for i in range(6 if tier == 'quick' else 256):
        us.append(('rebind', i))
    us.append(('elements', 3 if tier == 'quick' else 4))
    return us


def ops_json(ops):
    return [[o[0], o[1], to_json(o[2]), o[3]] if o[0] == 'def' else [o[0]] for o in ops]


def check_history(res, case, rec, ops, nt):
    res.evaluations += 1
    if nt:
        res.nt(repr(ops))
    o = top_outcome(rec, 'obs') if not (isinstance(rec, dict) and 'obs' in rec) else None
    if o is not None:
        if is_crash(o):
            res.violation(o[0], 'scope history', crash_sig(o), case, observed=list(o))
        else:
            res.inconclusive.append("ctxops: " + str(rec)[:200])
        return
    exp = simulate(ops)
    obs = rec['obs']
    if len(obs) != len(exp):
        res.inconclusive.append("ctxops: observation count %d != %d" % (len(obs), len(exp)))
        return
    for k, ((depth, look), ob) in enumerate(zip(exp, obs)):
        res.count("lookups", len(NAMES))
        for i, n in enumerate(NAMES):
            want = look[n]
            for how, got in (('get_variable', ob['look'][i]), ('program', ob['progs'][i]['res'])):
                g = outcome(got)
                ok = (g[0] == 'ok' and struct_eq(g[1], want)) if want is not None else (g[0] == 'err' and g[1] == 'undeclared')
                if not ok:
                    beh = 'stale or wrong binding' if want is not None and g[0] == 'ok' else ('binding lost' if want is not None else 'absent name resolves')
                    res.violation('wrong-lookup', 'lookup through ' + how, beh, case,
                                  expected={"step": k, "depth": depth, "name": n, "value": None if want is None else to_json(want)},
                                  observed=got)
                    return


def run_histories(res, drv, seqs, tag):
    for part in chunks(seqs, 4000):
        cases, metas = [], []
        for i, seq in enumerate(part):
            ops = to_ops(seq)
            cases.append({"id": i, "op": "ctxops", "names": NAMES, "progs": NAMES, "ops": ops_json(ops)})
            defs = [s for s in seq if s in NAMES]
            nt = len(defs) != len(set(defs)) or ('open' in seq and any(s in NAMES for s in seq[seq.index('open'):]))
            metas.append((ops, nt))
        out = drv.run(cases, tag)
        for c, r, (ops, nt) in zip(cases, out, metas):
            check_history(res, c, r, ops, nt)
    if seqs:
        res.sample({"history": list(seqs[len(seqs) // 2])}, cap=1)


class NameGen:
    def __init__(self, rng):
        self.rng = rng

    def intexpr(self, d, bound):
        rng = self.rng
        if d <= 0 or rng.random() < 0.3:
            if rng.random() < 0.75:
                return ('id', rng.choice(NAMES))
            return ('lit', I(rng.randint(0, 3)))
        m = rng.random()
        if m < 0.45:
            return ('bin', rng.choice(['+', '*', '-']), self.intexpr(d - 1, bound), self.intexpr(d - 1, bound))
        if m < 0.6:
            return ('cond', self.boolexpr(d - 1, bound), self.intexpr(d - 1, bound), self.intexpr(d - 1, bound))
        return ('call', 'size', [self.listexpr(d - 1, bound)])

    def boolexpr(self, d, bound):
        rng = self.rng
        m = rng.random()
        if d > 0 and bound and m < 0.12:
            # the bound variable compared with an operand that mentions it only under a nested macro, a map
            # literal or a list literal (an optimiser hoisting that operand would evaluate it in the wrong scope)
            v = rng.choice(sorted(bound))
            w = rng.choice([n for n in NAMES if n != v] or NAMES)
            inner = rng.choice([
                ('idx', ('macro', 'map', ('list', [('id', v)]), w, [('id', w)]), ('lit', I(0))),
                ('idx', ('map', [(('lit', S('k')), ('id', v))]), ('lit', S('k'))),
                ('call', 'size', [('macro', 'filter', ('list', [('id', v), ('lit', I(1))]), w, [('bin', '==', ('id', w), ('id', v))])]),
                ('idx', ('list', [('lit', I(0)), ('id', v)]), ('lit', I(1))),
                ('cond', ('macro', 'exists', ('list', [('lit', I(1))]), w, [('bin', '==', ('id', w), ('id', v))]), ('id', v), ('lit', I(-7))),
            ])
            return ('bin', '==', ('id', v), inner) if rng.random() < 0.5 else ('bin', '==', inner, ('id', v))
        if d <= 0 or m < 0.4:
            return ('bin', rng.choice(['<', '==', '>=', '!=']), self.intexpr(d - 1, bound), self.intexpr(d - 1, bound))
        v = rng.choice(NAMES)
        kind = rng.choice(['all', 'exists', 'exists_one'])
        return ('macro', kind, self.listexpr(d - 1, bound), v, [self.boolexpr(d - 1, bound | {v})])

    def listexpr(self, d, bound):
        rng = self.rng
        m = rng.random()
        if d <= 0 or m < 0.35:
            return ('list', [self.intexpr(0, bound) for _ in range(rng.randint(0, 3))])
        v = rng.choice(NAMES)
        if m < 0.75:
            return ('macro', 'map', self.listexpr(d - 1, bound), v, [self.intexpr(d - 1, bound | {v})])
        if m < 0.9:
            return ('macro', 'filter', self.listexpr(d - 1, bound), v, [self.boolexpr(d - 1, bound | {v})])
        return ('bin', '+', self.listexpr(d - 1, bound), self.listexpr(d - 1, bound))


def run_unit(unit, drv, res, seed, tier):
    kind = unit[0]
    alpha = NAMES + ['open', 'close']
    if kind == 'hist':
        a, b, maxlen = unit[1], unit[2], unit[3]
        seqs = []
        for n in range(2, maxlen + 1):
            for rest in itertools.product(alpha, repeat=n - 2):
                seq = (a, b) + rest
                if valid(seq):
                    seqs.append(seq)
        run_histories(res, drv, seqs, 'hist')
        res.exhaustive_done['histories-len-le-%d' % maxlen] = True
    elif kind == 'short':
        seqs = [()] + [(a,) for a in alpha if valid((a,))]
        run_histories(res, drv, seqs, 'short')
    elif kind == 'randhist':
        rng = rng_for(seed, 'C11', 'rh', unit[1])
        seqs = []
        for _ in range(600):
            seq, d = [], 0
            for _ in range(30):
                c = rng.choice(alpha + NAMES)
                if c == 'open' and d >= 6:
                    continue
                if c == 'close' and d == 0:
                    continue
                d += 1 if c == 'open' else (-1 if c == 'close' else 0)
                seq.append(c)
            seqs.append(tuple(seq))
        # depth up to 6 here: the simulate() model does not care
        run_histories(res, drv, seqs, 'randhist')
    elif kind == 'fnvar':
        # a name may denote a variable and a function at once, in either definition order
        cases, metas = [], []
        for fname in ('size', 'x', 'va0'):
            for order in ('var-first', 'fn-first', 'var-only', 'fn-only'):
                ops = []
                if order in ('var-first', 'var-only'):
                    ops.append(["def", fname, to_json(I(7)), 'add_variable'])
                if order != 'var-only':
                    ops.append(["deffn", fname])
                if order == 'fn-first':
                    ops.append(["def", fname, to_json(I(7)), 'from_value'])
                ops += [["open"], ["def", "q", to_json(I(1)), 'from_value']]
                progs = [fname, "%s([1, 2])" % fname, "%s + 1" % fname, "[%s].map(%s, %s)" % (fname, fname, fname)]
                cases.append({"id": len(cases), "op": "ctxops", "names": [fname], "progs": progs, "ops": ops})
                metas.append((fname, order))
        out = drv.run(cases, 'fnvar')
        for c, r, (fname, order) in zip(cases, out, metas):
            res.evaluations += 1
            res.nt("fnvar" + fname + order)
            if not (isinstance(r, dict) and 'obs' in r):
                o = top_outcome(r, 'obs')
                if is_crash(o):
                    res.violation(o[0], 'variable and function sharing a name', crash_sig(o), c, observed=list(o))
                continue
            last = r['obs'][-2]      # innermost scope after the last definition
            has_var = order != 'fn-only'
            has_fn = order != 'var-only' or fname in ('size', 'va0')
            got_var = outcome(last['progs'][0]['res'])
            got_call = outcome(last['progs'][1]['res'])
            ok_var = (got_var == ('ok', I(7))) if has_var else (got_var[0] == 'err' and got_var[1] == 'undeclared')
            if order == 'var-only' and fname == 'size':
                ok_call = got_call == ('ok', I(2))
            elif order == 'var-only' and fname == 'va0':
                ok_call = got_call == ('ok', I(1))
            elif has_fn:
                ok_call = got_call == ('ok', S("override:" + fname))
            else:
                ok_call = got_call[0] == 'err' and got_call[1] == 'undeclared'
            if not ok_var:
                res.violation('wrong-lookup', 'variable and function sharing a name', 'variable hidden or invented', c,
                              expected="variable %s" % ('= 7' if has_var else 'undeclared'), observed=fmt_outcome(got_var))
            if not ok_call:
                res.violation('wrong-lookup', 'variable and function sharing a name', 'function hidden or invented', c,
                              expected="call resolves to the %s" % ('function' if has_fn else 'nothing'), observed=fmt_outcome(got_call))
        res.exhaustive_done['function-variable-name-sharing'] = True
    elif kind == 'elements':
        # the iteration variable denotes the *current* element: ranges whose neighbours are identical, or equal
        # under == yet distinguishable (1, 1u, 1.0; 0.0, -0.0; [1], [1.0]), observed exactly by the body
        from celmodel.values import U, D
        alpha = [I(1), D(1.0), U(1), D(0.0), D(-0.0), I(2), L([I(1)]), L([D(1.0)]), S('1')]
        V = lambda n: ('id', n)
        items = []
        for n in range(1, unit[1] + 1):
            for xs in itertools.product(alpha, repeat=n):
                if n == unit[1] and len(set(map(repr, xs))) > 3:
                    continue
                R = ('list', [('lit', v) if v[0] != 'l' else ('list', [('lit', w) for w in v[1]]) for v in xs])
                for e in (('macro', 'map', R, 'x', [V('x')]),
                          ('macro', 'map', R, 'x', [('list', [V('x'), V('x')])]),
                          ('macro', 'filter', R, 'x', [('bin', '==', V('x'), ('lit', I(1)))]),
                          ('macro', 'map', R, 'x', [('bin', '==', V('x'), ('lit', I(1))), V('x')]),
                          ('macro', 'map', R, 'x', [('macro', 'map', ('list', [V('x'), ('lit', I(1)), V('x')]), 'y', [V('y')])]),
                          ('macro', 'map', R, 'x', [('macro', 'map', R, 'x', [V('x')])]),
                          ('macro', 'map', R, 'x', [('call', 'string', [V('x')])]) if not any(v[0] == 'l' for v in xs) else None,
                          ('macro', 'map', R, 'x', [('call', 't', [V('x'), V('x')])])):
                    if e is not None:
                        items.append(e)
        cases, exps = [], []
        for e in items:
            try:
                exp, ev = run_once(e, {})
            except Unsupported:
                continue
            cases.append(exec_case(len(cases), render_min(e)))
            exps.append((exp, ev))
        for part_c, part_e in zip(chunks(cases, 6000), chunks(exps, 6000)):
            out = drv.run(part_c, 'elements')
            for c, r, (exp, ev) in zip(part_c, out, part_e):
                res.evaluations += 1
                res.nt(c["src"])
                o = top_outcome(r)
                res.count("elements:" + (o[1] if o[0] == 'err' else o[0]))
                if is_crash(o):
                    res.violation(o[0], 'iteration variable', crash_sig(o), c, observed=list(o))
                elif not same_outcome(exp, o):
                    res.violation(mismatch_kind(exp, o), 'iteration variable', 'body did not see the current element', c,
                                  expected=fmt_outcome(exp), observed=fmt_outcome(o))
        res.exhaustive_done['ranges-with-equal-neighbours-len-le-%d' % unit[1]] = True
    elif kind == 'rebind':
        # one compiled program, several contexts in a row that bind the pool names differently (int, list, absent):
        # what a name denotes is decided at each execution, never remembered from an earlier one; the fixed forms
        # use the same name for a macro's range and its iteration variable
        rng = rng_for(seed, 'C11', 'rebind', unit[1])
        ID = lambda n: ('id', n)
        li = lambda k: ('lit', I(k))
        fixed = []
        for N, M in itertools.permutations(NAMES, 2):
            fixed += [
                ('macro', 'map', ID(N), N, [('bin', '+', ID(N), li(1))]),
                ('macro', 'map', ('list', [li(100)]), M, [('macro', 'map', ID(N), N, [('bin', '+', ID(N), ID(M))])]),
                ('macro', 'filter', ID(N), N, [('bin', '>', ID(N), li(1))]),
                ('cond', ('macro', 'all', ID(N), N, [('bin', '>', ID(N), li(0))]), ID(N), ('list', [li(0)])),
                ('bin', '+', ('call', 'size', [('macro', 'map', ID(N), M, [ID(M)])]), ('call', 'size', [ID(N)])),
                ('macro', 'exists', ID(N), N, [('macro', 'exists', ('list', [ID(N)]), N, [('bin', '==', ID(N), li(2))])]),
                ('macro', 'map', ('macro', 'map', ID(N), N, [('list', [ID(N)])]), N, [('call', 'size', [ID(N)])]),
                ('macro', 'map', ID(N), N, [('bin', '>', ID(N), li(1)), ('bin', '*', ID(N), li(2))]),
                ('macro', 'exists_one', ID(N), M, [('bin', '==', ID(M), li(2))]),
                ('list', [li(1), li(2)]), ('macro', 'map', ('list', [li(1), li(2)]), N, [('bin', '+', ID(N), li(1))]),
            ]
        items = []
        progs = list(fixed)
        for _ in range(250):
            g = NameGen(rng)
            progs.append(rng.choice([g.listexpr, g.boolexpr, g.intexpr])(rng.choice([1, 2, 3]), set()))
        for e in progs:
            ctxs = []
            for k in range(rng.choice([2, 3, 4])):
                vs = []
                for i, n in enumerate(NAMES):
                    m = rng.random()
                    if m < 0.45:
                        vs.append((n, L([I(rng.randint(0, 3)) for _ in range(rng.randint(0, 3))])))
                    elif m < 0.8:
                        vs.append((n, I(rng.randint(0, 3) + 10 * k)))
                ctxs.append(vs)
            if rng.random() < 0.3:
                ctxs.append(ctxs[0])
            try:
                exps = [run_once(e, dict(vs))[0] for vs in ctxs]
            except Unsupported:
                continue
            items.append((e, ctxs, exps))
        cases = [{"id": i, "op": "multictx", "src": render_min(e),
                  "ctxs": [{"vars": [[n, to_json(v)] for n, v in vs]} for vs in ctxs]} for i, (e, ctxs, exps) in enumerate(items)]
        out = drv.run(cases, 'rebind')
        for c, r, (e, ctxs, exps) in zip(cases, out, items):
            if not (isinstance(r, dict) and 'runs' in r):
                o = top_outcome(r, 'runs')
                if is_crash(o):
                    res.violation(o[0], 'one program, several contexts', crash_sig(o), c, observed=list(o))
                elif isinstance(r, dict) and 'compile_err' in r:
                    res.violation('rejected', 'one program, several contexts', 'compile error', c, observed=str(r)[:300])
                else:
                    res.inconclusive.append("multictx: " + str(r)[:200])
                continue
            res.nt(c["src"] + str(c["ctxs"]))
            for k, (run, exp) in enumerate(zip(r['runs'], exps)):
                res.evaluations += 1
                o = outcome(run['res'])
                res.count("rebind:" + (o[1] if o[0] == 'err' else o[0]))
                if is_crash(o):
                    res.violation(o[0], 'one program, several contexts', crash_sig(o), c, observed=list(o))
                    break
                if not same_outcome(exp, o):
                    res.violation(mismatch_kind(exp, o), 'one program, several contexts',
                                  'execution %s differs from what its own context prescribes' % ('1' if k == 0 else 'after the first'), c,
                                  expected={"context": k, "outcome": fmt_outcome(exp)}, observed=fmt_outcome(o))
                    break
        if cases:
            res.sample({"src": cases[0]["src"], "ctxs": cases[0]["ctxs"]}, cap=1)
    else:
        rng = rng_for(seed, 'C11', 'prog', unit[1])
        items = []
        for _ in range(700):
            g = NameGen(rng)
            root = [(n, I(rng.randint(10, 13) * 10 + i)) for i, n in enumerate(NAMES) if rng.random() < 0.6]
            inner = [(n, I(rng.randint(20, 23) * 10 + i)) for i, n in enumerate(NAMES) if rng.random() < 0.3]
            e = rng.choice([g.listexpr, g.boolexpr, g.intexpr])(rng.choice([1, 2, 3, 4]), set())
            env = dict(root)
            env.update(dict(inner))
            try:
                exp, ev = run_once(e, env)
            except Unsupported:
                continue
            src = render_min(e)
            c = exec_case(0, src, root, inner if inner else None, reread=True, probe=NAMES)
            items.append((c, exp, root, inner, src.count('.map(') + src.count('.all(') + src.count('.exists') + src.count('.filter(') >= 1))
        cases = []
        for i, it in enumerate(items):
            c = dict(it[0])
            c["id"] = i
            cases.append(c)
        out = drv.run(cases, 'programs')
        for c, r, (_, exp, root, inner, nt) in zip(cases, out, items):
            res.evaluations += 1
            if nt:
                res.nt(c["src"] + str(c.get("vars")) + str(c.get("inner")))
            o = top_outcome(r)
            res.count("program:" + (o[1] if o[0] == 'err' else o[0]))
            if is_crash(o):
                res.violation(o[0], 'macro scoping', crash_sig(o), c, observed=list(o))
                continue
            if not same_outcome(exp, o):
                res.violation(mismatch_kind(exp, o), 'macro scoping', 'differs from lexical scoping', c,
                              expected=fmt_outcome(exp), observed=fmt_outcome(o))
                continue
            # bindings and absences unchanged afterwards
            innerd, rootd = dict(inner), dict(root)
            for key, scope in (('after', {**rootd, **innerd}), ('root_after', rootd)):
                if key not in r:
                    continue
                for name, got in r[key]:
                    want = scope.get(name)
                    g = outcome(got)
                    ok = (g[0] == 'ok' and struct_eq(g[1], want)) if want is not None else (g[0] == 'err' and g[1] == 'undeclared')
                    if not ok:
                        res.violation('leak', 'bindings after execution', 'binding changed or leaked', c,
                                      expected={"name": name, "value": None if want is None else to_json(want), "scope": key},
                                      observed=got)
        if items:
            res.sample({"src": cases[1]["src"], "vars": cases[1].get("vars"), "inner": cases[1].get("inner")}, cap=1)


def recheck(cases, out, res):
    for c, r in zip(cases, out):
        print("observed:", str(r)[:1500])
