"""C13 — numeric literals and conversions preserve the number or fail."""
import math

from celmodel.values import (I, U, D, S, Y, B, NULL, to_json, top_outcome, is_crash, canon, struct_eq,
                             I64_MIN, I64_MAX, U64_MAX, bitsd)
from celmodel.refeval import builtin, CelError, Unsupported
from celmodel.expr import render_double, render_string
from .common import exec_case, rng_for, crash_sig, chunks, fmt_outcome, same_outcome, mismatch_kind

RULE = ("numeric literals from boundary sets (0, +-1, +-2^31, +-2^53+-1, i64/u64 limits, neighbours and one past "
        "each limit) written as decimal, 0x hex, signed, u/U-suffixed and as double literals (plain, exponent, "
        "leading dot, zero-padded to 17 / 21 / 40 digits in mantissa and exponent), plus random 64-bit patterns in every form; conversions int() uint() double() string() "
        "bytes() in both call styles on boundary values of every numeric kind, doubles at +-2^63 / +-2^64 and their "
        "neighbours, NaN, +-inf, subnormals, -0.0, number strings and malformed strings; round trips "
        "int(string(i)), uint(string(u)), double(string(d)) (bit-exact), string(bytes(s)) / bytes(string(b)) over texts incl. BOM-leading, non-characters, line separators and long non-ASCII; oracle: Python ints / "
        "floats; non-trivial = literal / argument within 2 of a type limit, beyond 2^53, or non-finite; distinct "
        "= distinct source + context")
ASSUMPTIONS = ["doubles in (-1, 0) converted to uint, non-canonical number strings (+5, -0, spaces, 0x10) and "
               "string(bytes) of invalid UTF-8 are not judged (the statement does not pin them down)",
               "the text of string(double) is not compared, only that double(string(d)) returns d"]

INT_B = sorted(set([0, 1, -1, 2, -2, 9, 10, 255, 256, (1 << 31) - 1, 1 << 31, (1 << 31) + 1, -(1 << 31), -(1 << 31) - 1,
                    (1 << 32), (1 << 53) - 1, 1 << 53, (1 << 53) + 1, -(1 << 53), -(1 << 53) - 1, -(1 << 53) + 1,
                    I64_MAX, I64_MAX - 1, I64_MAX - 2, I64_MIN, I64_MIN + 1, I64_MIN + 2]))
INT_OUT = [I64_MAX + 1, I64_MAX + 2, I64_MIN - 1, I64_MIN - 2, 1 << 64, -(1 << 64), 10 ** 30]
UINT_B = sorted(set([0, 1, 2, 10, 255, (1 << 31), (1 << 32) - 1, 1 << 32, (1 << 53) - 1, 1 << 53, (1 << 53) + 1,
                     I64_MAX, I64_MAX + 1, I64_MAX + 2, U64_MAX, U64_MAX - 1, U64_MAX - 2]))
UINT_OUT = [U64_MAX + 1, U64_MAX + 2, 1 << 65, 10 ** 30]


def nxt(f, up=True):
    return math.nextafter(f, math.inf if up else -math.inf)


P63, P64, P53 = float(1 << 63), float(1 << 64), float(1 << 53)
DBL_B = [0.0, -0.0, 1.0, -1.0, 0.5, -0.5, 0.999999, -0.999999, 1.5, -1.5, 2.5, 1e10, -1e10, P53, P53 + 2, nxt(P53), -P53,
         P63, nxt(P63), nxt(P63, False), -P63, nxt(-P63), nxt(-P63, False), P64, nxt(P64), nxt(P64, False),
         float(1 << 31), float((1 << 31) - 1) + 0.5, 1e300, -1e300, 5e-324, -5e-324, 2.2250738585072014e-308,
         1.7976931348623157e308, float('inf'), float('-inf'), float('nan'), 4294967295.9, 1e19, 1.8446744073709552e19,
         9.223372036854776e18, -9.223372036854776e18, 3.141592653589793, 0.1, 1 / 3]
NUM_STRINGS = ["0", "1", "-1", "42", "007", "9223372036854775807", "9223372036854775808", "-9223372036854775808",
               "-9223372036854775809", "18446744073709551615", "18446744073709551616", "1.5", "-2.25", "1e3", "1E-2",
               "1.0e+5", ".5", "5.", "1e400", "1e-400", "NaN", "inf", "-inf", "123456789012345678901234567890",
               "0.1", "2.2250738585072014e-308", "4.9e-324", "1.7976931348623157e308", "1.7976931348623159e308"]
BAD_STRINGS = ["", " ", "abc", "1x", "x1", "1 2", "--1", "1e", "e1", ".", "-", "+", "1.2.3", "0x", "١٢", "1_000",
               "1,5", "Ⅷ", "1\u0000", "\n1", "1\n", "nan1", "infx", "true"]
LENIENT_STRINGS = ["+5", "-0", " 1", "1 ", "0x10", "+0", "+1.5", "Infinity", "-Infinity", "nan", "NAN", "INF", "+inf",
                   "infinity", "1_0"]


def units(tier, seed):
    us = [('literals',), ('conv', 'int'), ('conv', 'uint'), ('conv', 'double'), ('conv', 'string'), ('conv', 'bytes'),
          ('roundtrip',)]
    for i in range(12 if tier == 'quick' else 640):
        us.append(('random', i))
    return us


def lit_forms_int(x):
    """(source, expected) for an integer value x, possibly out of range."""
    inr = I64_MIN <= x <= I64_MAX
    exp = ('ok', I(x)) if inr else ('reject',)
    forms = [(str(x), exp)]
    if x >= 0:
        forms.append(("0x%x" % x, exp))
        forms.append(("0x%X" % x, exp))
        forms.append(("0x000%x" % x, exp))
        forms.append(("000%d" % x, exp))
        forms.append(("0x%017x" % x, exp))
        forms.append(("0x%040X" % x, exp))
        forms.append(("%020d" % x, exp))
        forms.append(("%040d" % x, exp))
    else:
        forms.append(("-0x%x" % -x, exp))
        forms.append(("- %d" % -x, exp))
    return forms


def lit_forms_uint(x):
    inr = 0 <= x <= U64_MAX
    exp = ('ok', U(x)) if inr else ('reject',)
    return [(str(x) + "u", exp), (str(x) + "U", exp), ("0x%xu" % x, exp), ("0x%XU" % x, exp), ("00%du" % x, exp),
            ("0x%017xu" % x, exp), ("0x%040XU" % x, exp), ("%021du" % x, exp), ("%040dU" % x, exp)] if x >= 0 else \
        [(str(x) + "u", exp), (str(x) + "U", exp)]


def lit_forms_double(f):
    forms = []
    r = render_double(f)
    forms.append((r, ('ok', D(f))))
    if 'e' not in r:
        a = abs(f)
        forms.append(("%se0" % r, ('ok', D(f))))
        if a != 0 and a < 1:
            s = repr(a)
            if s.startswith('0.'):
                forms.append((('-' if f < 0 or str(f).startswith('-') else '') + s[1:], ('ok', D(f))))   # leading dot
    forms.append(("%.17e" % f, ('ok', D(f))))
    forms.append((("%.17E" % f), ('ok', D(f))))
    e17 = "%.17e" % f
    mant, ex = e17.split('e')
    sign = '-' if mant.startswith('-') else ''
    forms.append((sign + '000' + mant.lstrip('-') + '0' * 25 + 'e' + ex[0] + '000' + ex[1:], ('ok', D(f))))   # padded everywhere
    return forms


def judge_literal(res, case, rec, exp, nontrivial):
    res.evaluations += 1
    o = top_outcome(rec)
    if nontrivial:
        res.nt(case["src"])
    if is_crash(o):
        res.violation(o[0], 'numeric literal', crash_sig(o), case, observed=list(o))
        return
    if exp[0] == 'reject':
        res.count("literal:out-of-range")
        if o[0] != 'compile_err':
            res.violation('accepted', 'out-of-range literal', 'compiled', case, expected="compile error", observed=fmt_outcome(o))
        return
    res.count("literal:in-range")
    if o[0] == 'compile_err':
        res.violation('rejected', 'in-range literal', 'compile error', case, expected=fmt_outcome(exp), observed=str(o[1])[:200])
    elif not same_outcome(exp, o):
        res.violation('wrong-value', 'in-range literal', 'value differs from the number written', case,
                      expected=fmt_outcome(exp), observed=fmt_outcome(o))


def expect_conv(fn, v, method):
    try:
        return ('ok', builtin(fn, method, [v]))
    except CelError as e:
        return ('err', e.cls)


def near_limit(v):
    if v[0] in ('i', 'u'):
        return abs(v[1]) >= (1 << 53) - 1
    if v[0] == 'd':
        f = v[1]
        return f != f or abs(f) >= P53 or (f != 0 and abs(f) < 1e-300)
    return True


def run_conv(res, drv, fn, args, tag):
    cases, meta = [], []
    for v in args:
        for method in (False, True):
            try:
                exp = expect_conv(fn, v, method)
            except Unsupported:
                res.count("skipped:not-judged")
                exp = None
            src = ("a.%s()" % fn) if method else ("%s(a)" % fn)
            cases.append(exec_case(len(cases), src, [("a", v)]))
            meta.append((v, exp))
    out = drv.run(cases, tag)
    for c, r, (v, exp) in zip(cases, out, meta):
        res.evaluations += 1
        o = top_outcome(r)
        if near_limit(v):
            res.nt(c["src"] + canon(v))
        res.count("conv:%s:%s" % (fn, o[1] if o[0] == 'err' else o[0]))
        if is_crash(o):
            res.violation(o[0], 'conversion ' + fn, crash_sig(o), c, observed=list(o))
            continue
        if exp is None:
            continue
        if not same_outcome(exp, o):
            res.violation(mismatch_kind(exp, o), '%s(%s)' % (fn, v[0]), 'conversion result differs', c,
                          expected=fmt_outcome(exp), observed=fmt_outcome(o))


def run_unit(unit, drv, res, seed, tier):
    kind = unit[0]
    if kind == 'literals':
        items = []
        for x in INT_B + INT_OUT:
            for src, exp in lit_forms_int(x):
                items.append((src, exp, abs(x) >= (1 << 53) - 1))
        for x in UINT_B + UINT_OUT:
            for src, exp in lit_forms_uint(x):
                items.append((src, exp, x >= (1 << 53) - 1))
        for f in DBL_B:
            if f != f or f in (float('inf'), float('-inf')):
                continue
            for src, exp in lit_forms_double(f):
                items.append((src, exp, near_limit(D(f))))
        for src in ("1e999", "-1e999", "1.7976931348623159e308", "1e309", "123456789e301"):
            items.append((src, ('reject',), True))
        for src, f in (("1e-400", 0.0), ("4.9e-324", 5e-324), ("2.4703282292062327e-324", 0.0), ("2.4703282292062328e-324", 5e-324),
                       ("9007199254740993.0", 9007199254740992.0), ("9007199254740993.000001", 9007199254740994.0),
                       ("0.1e1", 1.0), ("1.0E+2", 100.0), ("5e-1", 0.5)):
            items.append((src, ('ok', D(f)), True))
        # literals inside an expression (sign handling next to operators)
        for x in (I64_MIN, -1, I64_MAX):
            items.append(("0 + %d" % x, ('ok', I(x)), True))
            items.append(("[%d][0]" % x, ('ok', I(x)), True))
        cases = [exec_case(i, src) for i, (src, exp, nt) in enumerate(items)]
        out = drv.run(cases, 'literals')
        for c, r, (src, exp, nt) in zip(cases, out, items):
            judge_literal(res, c, r, exp, nt)
        res.exhaustive_done['boundary-literals'] = True
        res.sample({"src": cases[40]["src"]}, cap=1)
    elif kind == 'conv':
        fn = unit[1]
        nums = [I(x) for x in INT_B] + [U(x) for x in UINT_B] + [D(f) for f in DBL_B]
        strs = [S(s) for s in NUM_STRINGS + BAD_STRINGS + LENIENT_STRINGS]
        others = [B(True), NULL, Y(b"1"), Y(b"\xff\xfe"), Y("é".encode()), ('l', [I(1)]), ('m', [])]
        if fn in ('int', 'uint', 'double'):
            run_conv(res, drv, fn, nums + strs + others, 'conv')
        elif fn == 'string':
            run_conv(res, drv, fn, nums + [S(""), S("é𝄞"), Y(b""), Y(b"abc"), Y("é𝄞".encode()), Y(b"\xff")] + others, 'conv')
        else:
            # bytes() takes no receiver
            cases, meta = [], []
            for s in ["", "abc", "é", "𝄞", "a\u0000b", "\U0010ffff"]:
                cases.append(exec_case(len(cases), "bytes(a)", [("a", S(s))]))
                meta.append(('ok', Y(s.encode('utf-8'))))
            for v in (I(1), Y(b"x"), NULL):
                cases.append(exec_case(len(cases), "bytes(a)", [("a", v)]))
                meta.append(('err', '*'))
            out = drv.run(cases, 'conv')
            for c, r, exp in zip(cases, out, meta):
                res.evaluations += 1
                res.nt(c["src"] + str(c["vars"]))
                o = top_outcome(r)
                if not same_outcome(exp, o):
                    res.violation(o[0] if is_crash(o) else mismatch_kind(exp, o), 'bytes(x)', crash_sig(o) if is_crash(o) else 'result differs', c,
                                  expected=fmt_outcome(exp), observed=fmt_outcome(o))
        res.exhaustive_done['conversions-' + fn] = True
    elif kind == 'roundtrip':
        cases, meta = [], []
        for x in INT_B:
            cases.append(exec_case(len(cases), "int(string(a))", [("a", I(x))]))
            meta.append(I(x))
            cases.append(exec_case(len(cases), "a.string().int()", [("a", I(x))]))
            meta.append(I(x))
        for x in UINT_B:
            cases.append(exec_case(len(cases), "uint(string(a))", [("a", U(x))]))
            meta.append(U(x))
        for f in DBL_B:
            cases.append(exec_case(len(cases), "double(string(a))", [("a", D(f))]))
            meta.append(D(f))
        for s in ["", "abc", "é𝄞", "a\u0000b", "\U0010ffff ", "'\"\\", "\ufeffabc", "\ufeff", "a\ufeffb", "\ufffe", "\ufffd", "\u2028x", "a\r\nb",
                  " abc ", "\tabc\n", "+1", "0x10", "é" * 100, "\x00", "\x7f\x80", "\u00ff\u0100", "𝄞" * 9, "\r", "\n", "\\n", "%s", "{}"]:
            cases.append(exec_case(len(cases), "string(bytes(a))", [("a", S(s))]))
            meta.append(S(s))
            cases.append(exec_case(len(cases), "bytes(a).string()", [("a", S(s))]))
            meta.append(S(s))
            cases.append(exec_case(len(cases), "bytes(string(a))", [("a", ('y', s.encode('utf-8')))]))
            meta.append(('y', s.encode('utf-8')))
            cases.append(exec_case(len(cases), "string(a) + 'x' == a + 'x' && string(a).size() == a.size()", [("a", S(s))]))
            meta.append(('b', True))
        out = drv.run(cases, 'roundtrip')
        for c, r, v in zip(cases, out, meta):
            res.evaluations += 1
            res.nt(c["src"] + canon(v))
            o = top_outcome(r)
            if not (o[0] == 'ok' and struct_eq(o[1], v)):
                res.violation(o[0] if is_crash(o) else 'wrong-value', 'round trip ' + c["src"], crash_sig(o) if is_crash(o) else 'does not return the original', c,
                              expected=fmt_outcome(('ok', v)), observed=fmt_outcome(o))
        res.exhaustive_done['round-trips'] = True
    else:
        rng = rng_for(seed, 'C13', unit[1])
        items = []
        convs = {'int': [], 'uint': [], 'double': []}
        rts = []
        for _ in range(400):
            bits = rng.getrandbits(64)
            xi = bits - (1 << 64) if bits >= (1 << 63) else bits
            if rng.random() < 0.5:
                sh = rng.randint(0, 63)
                xi >>= sh
                bits >>= sh
            for src, exp in lit_forms_int(xi):
                items.append((src, exp, True))
            for src, exp in lit_forms_uint(bits):
                items.append((src, exp, True))
            f = bitsd(rng.getrandbits(64))
            if f == f and f not in (float('inf'), float('-inf')):
                for src, exp in lit_forms_double(f):
                    items.append((src, exp, True))
            convs['int'] += [U(bits), D(f), D(float(xi)), S(str(xi)), S(str(bits))]
            convs['uint'] += [I(xi), D(f), D(float(bits)), S(str(bits)), S(str(xi))]
            convs['double'] += [I(xi), U(bits), S(repr(f)), S(str(xi))]
            rts.append((D(f), "double(string(a))"))
            rts.append((I(xi), "int(string(a))"))
            rts.append((U(bits), "uint(string(a))"))
        cases = [exec_case(i, src) for i, (src, exp, nt) in enumerate(items)]
        out = drv.run(cases, 'rlit')
        for c, r, (src, exp, nt) in zip(cases, out, items):
            judge_literal(res, c, r, exp, nt)
        for fn, args in convs.items():
            run_conv(res, drv, fn, args, 'rconv')
        cases = [exec_case(i, src, [("a", v)]) for i, (v, src) in enumerate(rts)]
        out = drv.run(cases, 'rrt')
        for c, r, (v, src) in zip(cases, out, rts):
            res.evaluations += 1
            res.nt(src + canon(v))
            o = top_outcome(r)
            if not (o[0] == 'ok' and struct_eq(o[1], v)):
                res.violation(o[0] if is_crash(o) else 'wrong-value', 'round trip ' + src, crash_sig(o) if is_crash(o) else 'does not return the original', c,
                              expected=fmt_outcome(('ok', v)), observed=fmt_outcome(o))


def recheck(cases, out, res):
    for c, r in zip(cases, out):
        print("observed:", str(r)[:800])
