"""C15 — durations parse, print, add and compare exactly."""
from celmodel.values import (I, S, B, DUR, to_json, top_outcome, is_crash, canon, I64_MIN, I64_MAX)
from celmodel.expr import render_string
from .common import exec_case, rng_for, crash_sig, chunks, fmt_outcome, same_outcome

RULE = ("durations supplied as host Value::Duration variables (exact nanosecond counts) from a boundary set (0, +-1ns, "
        "+-999ns, +-1us, +-1ms, +-1s, +-59.999999999s, +-1m, +-1h, i64::MIN/MAX ns and neighbours) and random counts "
        "with log-uniform magnitude and both signs: string(d) against a Python port of Go's Duration.String, "
        "duration(string(d)) == d, all boundary pairs under + - and the six relations; well-formed strings from the "
        "term grammar (multi-term, fractional, leading zeros, us / micro-sign spellings, sign) with integer-exact "
        "expected values; malformed strings from a mutation grammar (trailing text, missing unit, doubled sign, sign "
        "after the first term, exponent, inf / nan, spaces, empty, unit only, unknown unit), every sign prefix of 2-3 characters, and for every unit the largest whole number that fits, its successor and digit runs up to 120 digits; non-trivial = value off "
        "the round boundaries or a malformed mutant; distinct = distinct (source, context)")
ASSUMPTIONS = ["spellings the statement does not pin down ('+1s', '.5s', '1.s') are not judged",
               "fractional terms are expected to be converted exactly (truncating below a nanosecond)"]

NS = 1
US = 1000
MS = 1000_000
SEC = 1000_000_000
UNITS = {'ns': 1, 'us': US, 'µs': US, 'μs': US, 'ms': MS, 's': SEC, 'm': 60 * SEC, 'h': 3600 * SEC}

BOUNDARY = sorted(set(
    [0] + [s * x for s in (1, -1) for x in (1, 999, 1000, 1001, 999_999, MS, MS + 1, 999_999_999, SEC, SEC + 1,
                                            59_999_999_999, 60 * SEC, 60 * SEC + 1, 3599 * SEC, 3600 * SEC, 3600 * SEC + 1,
                                            86400 * SEC, 1500 * MS, 90 * 60 * SEC, 1100, 2_200_000, 3300 * MS,
                                            4 * 60 * SEC + 5 * SEC + MS, 100 * 3600 * SEC, 123_456_789_012)] +
    [I64_MAX, I64_MAX - 1, I64_MIN, I64_MIN + 1, I64_MAX // 2, I64_MIN // 2, I64_MAX - 999_999_999, I64_MIN + 999_999_999]))


def go_string(ns):
    """Port of Go's time.Duration.String on Python ints."""
    if ns == 0:
        return "0s"
    neg = ns < 0
    u = -ns if neg else ns
    if u < SEC:
        if u < US:
            prec, unit = 0, "ns"
        elif u < MS:
            prec, unit = 3, "µs"
        else:
            prec, unit = 6, "ms"
        whole, frac = divmod(u, 10 ** prec)
        fs = ("%0*d" % (prec, frac)).rstrip('0') if prec else ''
        s = str(whole) + ('.' + fs if fs else '') + unit
    else:
        secs, frac = divmod(u, SEC)
        fs = ("%09d" % frac).rstrip('0')
        s = str(secs % 60) + ('.' + fs if fs else '') + 's'
        mins = secs // 60
        if mins > 0:
            s = str(mins % 60) + 'm' + s
            hours = mins // 60
            if hours > 0:
                s = str(hours) + 'h' + s
    return ('-' if neg else '') + s


def parse_ref(text):
    """Exact reference parser: returns nanoseconds, 'reject', or None (not judged)."""
    s = text
    if s == "":
        return 'reject'
    neg = False
    if s[0] == '-':
        neg = True
        s = s[1:]
    elif s[0] == '+':
        # a single leading '+' is Go's spelling and not pinned down by the statement; a second sign is "doubled"
        if len(s) > 1 and s[1] in '+-':
            return 'reject'
        return None
    if s == "0":
        return 0
    if s == "":
        return 'reject'
    total = 0
    i = 0
    n = len(s)
    while i < n:
        j = i
        while j < n and s[j].isdigit() and s[j].isascii():
            j += 1
        intpart = s[i:j]
        frac = ''
        k = j
        if k < n and s[k] == '.':
            k += 1
            f0 = k
            while k < n and s[k].isdigit() and s[k].isascii():
                k += 1
            frac = s[f0:k]
            if intpart == '' or frac == '':
                # '.5s' / '5.s': Go accepts, not pinned down by the statement
                if intpart == '' and frac == '':
                    return 'reject'
                return None
        if intpart == '':
            return 'reject'
        unit = None
        for u in ('ns', 'us', 'µs', 'μs', 'ms', 's', 'm', 'h'):
            if s.startswith(u, k):
                # longest match: 'm' vs 'ms'
                if unit is None or len(u) > len(unit):
                    unit = u
        if unit is None:
            return 'reject'
        k += len(unit)
        val = int(intpart) * UNITS[unit]
        if frac:
            val += int(frac) * UNITS[unit] // (10 ** len(frac))
        total += val
        i = k
    if neg:
        total = -total
    if not (I64_MIN <= total <= I64_MAX):
        return 'reject'
    return total


def units(tier, seed):
    us = [('print',), ('pairs',), ('wellformed',), ('malformed',)]
    for i in range(12 if tier == 'quick' else 640):
        us.append(('random', i))
    return us


def judge(res, c, r, exp, feature, nt=True):
    res.evaluations += 1
    if nt:
        res.nt(c["src"] + str(c.get("vars")))
    o = top_outcome(r)
    res.count(feature + ":" + (o[1] if o[0] == 'err' else o[0]))
    if is_crash(o):
        res.violation(o[0], feature, crash_sig(o), c, observed=list(o))
    elif exp == 'any-error':
        if o[0] != 'err':
            res.violation('accepted', feature, 'malformed duration string accepted', c, expected="an error", observed=fmt_outcome(o))
    elif not same_outcome(exp, o):
        res.violation('wrong-value' if (o[0] == 'ok' and exp[0] == 'ok') else 'wrong-outcome', feature,
                      'differs from the exact nanosecond model', c, expected=fmt_outcome(exp), observed=fmt_outcome(o))


def print_items(values):
    items = []
    for ns in values:
        d = DUR(ns)
        vs = [("d", d)]
        text = go_string(ns)
        items.append((exec_case(0, "string(d)", vs), ('ok', S(text)), 'string(duration)'))
        items.append((exec_case(0, "d.string()", vs), ('ok', S(text)), 'string(duration)'))
        items.append((exec_case(0, "duration(string(d)) == d", vs), ('ok', B(True)), 'print / parse round trip'))
        items.append((exec_case(0, "duration(string(d))", vs), ('ok', d), 'print / parse round trip'))
        items.append((exec_case(0, "duration(%s)" % render_string(text)), ('ok', d), 'parse of the canonical rendering'))
        items.append((exec_case(0, "duration(%s)" % render_string(text.replace('µs', 'us'))), ('ok', d), 'parse of the canonical rendering'))
    return items


def run_items(res, drv, items, tag):
    for part in chunks(items, 6000):
        cases = []
        for i, it in enumerate(part):
            c = dict(it[0])
            c["id"] = i
            cases.append(c)
        out = drv.run(cases, tag)
        for c, r, it in zip(cases, out, part):
            judge(res, c, r, it[1], it[2], it[3] if len(it) > 3 else True)
    if items:
        res.sample({"src": items[len(items) // 2][0]["src"], "vars": items[len(items) // 2][0].get("vars")}, cap=1)


def wellformed(rng):
    """A well-formed multi-term string and its exact value."""
    nterms = rng.choice([1, 1, 2, 3, 4])
    neg = rng.random() < 0.3
    parts, total = [], 0
    for _ in range(nterms):
        unit = rng.choice(['ns', 'us', 'µs', 'ms', 's', 'm', 'h'])
        intpart = rng.choice([0, 1, 2, 7, 10, 59, 60, 100, 999, 1000, 123456]) if rng.random() < 0.8 else rng.randint(0, 10 ** 6)
        lead = '0' * rng.choice([0, 0, 0, 1, 3])
        s = lead + str(intpart)
        val = intpart * UNITS[unit]
        if rng.random() < 0.5:
            nd = rng.randint(1, 12)
            frac = ''.join(rng.choice('0123456789') for _ in range(nd))
            s += '.' + frac
            val += int(frac) * UNITS[unit] // (10 ** nd)
        parts.append(s + unit)
        total += val
    text = ('-' if neg else '') + ''.join(parts)
    return text, (-total if neg else total)


MALFORMED_BASE = [".s", "-.ms", "1h.m", "1h30m.s", ".", "-.", ".h", "1s.ns", ".us1s", "1hx", "1h ", " 1h", "1 h", "1h 30m", "1", "10", "1h30", "--1s", "-+1s", "1h-30m", "1h+30m", "1e3s", "1E3s",
                  "infs", "nans", "inf", "nan", "-infs", "Infs", "", "s", "h", "ms", "-", "-s", "1d", "1sec", "1S", "1H", "1Ms",
                  "1.2.3s", "1,5s", "1_000s", "0x10s", "1h1", "1m1h1", "..5s", "1..5s", "1.5.s", "-", "--0", "0s0", "1s-",
                  "1s.", "s1", "1hh", "1µ", "1μ", "1u", "1n", "١s", "1s\n", "\t1s", "1s\u0000", "1ｓ", "9223372036854775808ns",
                  "-9223372036854775809ns", "2562047h47m16.854775808s", "-2562047h47m16.854775809s", "2562048h",
                  "99999999999999999999h", "1h9223372036854775807ns9223372036854775807ns"]


def run_unit(unit, drv, res, seed, tier):
    kind = unit[0]
    if kind == 'print':
        run_items(res, drv, print_items(BOUNDARY), 'print')
        res.exhaustive_done['boundary-durations'] = True
    elif kind == 'pairs':
        items = []
        B2 = BOUNDARY[::2] + [I64_MAX, I64_MIN, 0, 1, -1]
        for a in B2:
            for b in B2:
                vs = [("a", DUR(a)), ("b", DUR(b))]
                s, d = a + b, a - b
                items.append((exec_case(0, "a + b", vs), ('ok', DUR(s)) if I64_MIN <= s <= I64_MAX else ('err', '*'), 'duration + duration'))
                items.append((exec_case(0, "a - b", vs), ('ok', DUR(d)) if I64_MIN <= d <= I64_MAX else ('err', '*'), 'duration - duration'))
                for rel, f in (('<', a < b), ('<=', a <= b), ('>', a > b), ('>=', a >= b), ('==', a == b), ('!=', a != b)):
                    items.append((exec_case(0, "a %s b" % rel, vs), ('ok', B(f)), 'duration comparison', abs(a) > 1 or abs(b) > 1))
        run_items(res, drv, items, 'pairs')
        res.exhaustive_done['boundary-pairs'] = True
    elif kind == 'wellformed':
        rng = rng_for(seed, 'C15', 'wf')
        items = []
        fixed = [("1s", SEC), ("-1s", -SEC), ("1.5h", 5400 * SEC), ("1h30m", 5400 * SEC), ("1h30m1s", 5401 * SEC), ("1ms", MS),
                 ("1.5ms", 1_500_000), ("1ns", 1), ("1.5ns", 1), ("0s", 0), ("0h0m0s", 0), ("0", 0), ("-0", 0), ("1us", US), ("1µs", US),
                 ("1μs", US), ("2.000000003s", 2 * SEC + 3), ("0.000000001s", 1), ("0.0000000009s", 0), ("1.1us", 1100),
                 ("0.1s", 100 * MS), ("0.3s", 300 * MS), ("0.7ms", 700_000), ("1.000000001h", 3600 * SEC + 3600), ("100h", 360000 * SEC),
                 ("2562047h47m16.854775807s", I64_MAX), ("-2562047h47m16.854775808s", I64_MIN), ("9223372036854775807ns", I64_MAX),
                 ("-9223372036854775808ns", I64_MIN), ("9223372036854.775807ms", I64_MAX), ("1h1h", 7200 * SEC), ("1s1h", 3601 * SEC),
                 ("0001s", SEC), ("1.50s", 1500 * MS), ("1m0.5s", 60 * SEC + 500 * MS), ("-1h30m", -5400 * SEC),
                 ("0.999999999s", 999_999_999), ("1.9999999999s", 1_999_999_999), ("153722867m", 153722867 * 60 * SEC)]
        for t, v in fixed:
            items.append((exec_case(0, "duration(%s)" % render_string(t)), ('ok', DUR(v)), 'parse of a well-formed string'))
            assert parse_ref(t) == v, (t, parse_ref(t), v)
        for _ in range(1500):
            t, v = wellformed(rng)
            if not (I64_MIN <= v <= I64_MAX):
                items.append((exec_case(0, "duration(%s)" % render_string(t)), 'any-error', 'string beyond 64-bit nanoseconds'))
                continue
            items.append((exec_case(0, "duration(%s)" % render_string(t)), ('ok', DUR(v)), 'parse of a well-formed string'))
            items.append((exec_case(0, "duration(s) == d", [("s", S(t)), ("d", DUR(v))]), ('ok', B(True)), 'parse of a well-formed string'))
        run_items(res, drv, items, 'wellformed')
    elif kind == 'malformed':
        rng = rng_for(seed, 'C15', 'mf')
        items = []
        texts = list(MALFORMED_BASE)
        for _ in range(600):
            t, v = wellformed(rng)
            m = rng.random()
            if m < 0.15:
                t2 = t + rng.choice(["x", " ", "1", ".", "-", "e3", "s s", "\n", " ", "S"])
            elif m < 0.3:
                t2 = rng.choice([" ", "-", "+-", "x", "\t"]) + t
            elif m < 0.45:
                i = rng.randrange(len(t) + 1)
                t2 = t[:i] + rng.choice([" ", "-", "e", "x", "_", ",", "..", "E5"]) + t[i:]
            elif m < 0.6:
                # drop the last unit
                t2 = t.rstrip('nsuµμmh')
            elif m < 0.75:
                t2 = t.replace('s', 'S', 1) if 's' in t else t.upper()
            elif m < 0.9:
                t2 = t + t[0:1].replace('-', '') + "-1s"
            elif m < 0.95:
                t2 = rng.choice(["inf", "nan", "infinity", "1e3", "1e-3", "0x1p3"]) + rng.choice(['s', 'ms', 'h', ''])
            else:
                # a term whose number is only a decimal point
                t2 = t + "." + rng.choice(['s', 'ms', 'us', 'ns', 'm', 'h'])
            texts.append(t2)
        # every sign prefix of 2-3 characters, and for every unit the largest whole number that fits, its
        # successor and longer digit runs, alone and as the last of two terms, both signs
        for sg in [a + b for a in '+-' for b in '+-'] + [a + b + c for a in '+-' for b in '+-' for c in '+-']:
            for body in ('1s', '1h30m', '0', '1.5ms', '2562047h', '9223372036854775807ns'):
                texts.append(sg + body)
        for u, k in UNITS.items():
            top = I64_MAX // k
            for n in (top, top + 1, top + 2, top * 10, top * 10 + 9, 10 ** 18, 10 ** 19, 10 ** 20, 2 ** 63 - 1, 2 ** 63, 2 ** 64 - 1, 2 ** 64,
                      10 ** 30, 10 ** 38, 2 ** 127, 10 ** 39, 10 ** 45, 10 ** 120):
                for sg in ('', '-'):
                    texts.append('%s%d%s' % (sg, n, u))
                    texts.append('%s0s%d%s' % (sg, n, u))
                    texts.append('%s%d.0%s' % (sg, n, u))
                    texts.append('%s0.%d%s' % (sg, n, u))
        for t in texts:
            ref = parse_ref(t)
            if ref is None:
                res.count("skipped:not-judged")
                continue
            if ref == 'reject':
                items.append((exec_case(0, "duration(%s)" % render_string(t)), 'any-error', 'malformed duration string'))
                items.append((exec_case(0, "duration(s)", [("s", S(t))]), 'any-error', 'malformed duration string'))
            else:
                # the mutation happened to produce a well-formed string: check its exact value
                items.append((exec_case(0, "duration(%s)" % render_string(t)), ('ok', DUR(ref)), 'parse of a well-formed string'))
        run_items(res, drv, items, 'malformed')
    else:
        rng = rng_for(seed, 'C15', unit[1])
        vals = []
        for _ in range(700):
            bits = rng.randint(0, 63)
            x = rng.getrandbits(bits) if bits else 0
            if rng.random() < 0.5:
                x = -x
            vals.append(max(I64_MIN, min(I64_MAX, x)))
        items = print_items(vals)
        for _ in range(400):
            a, b = rng.choice(vals), rng.choice(vals)
            vs = [("a", DUR(a)), ("b", DUR(b))]
            s, d = a + b, a - b
            items.append((exec_case(0, "a + b", vs), ('ok', DUR(s)) if I64_MIN <= s <= I64_MAX else ('err', '*'), 'duration + duration'))
            items.append((exec_case(0, "a - b", vs), ('ok', DUR(d)) if I64_MIN <= d <= I64_MAX else ('err', '*'), 'duration - duration'))
            items.append((exec_case(0, "a < b", vs), ('ok', B(a < b)), 'duration comparison'))
            items.append((exec_case(0, "duration(string(a)) + duration(string(b)) == a + b", vs),
                          ('ok', B(True)) if I64_MIN <= s <= I64_MAX else ('err', '*'), 'duration + duration'))
        run_items(res, drv, items, 'random')


def recheck(cases, out, res):
    for c, r in zip(cases, out):
        print("observed:", str(r)[:800])
