"""C16 — timestamps keep the instant and calendar fields they were given."""
import datetime

from celmodel.values import (I, S, B, L, DUR, TS, to_json, top_outcome, is_crash, canon, I64_MIN, I64_MAX)
from celmodel.expr import render_string
from .common import exec_case, rng_for, crash_sig, chunks, fmt_outcome, same_outcome

RULE = ("RFC 3339 timestamps in years 0001-9999: boundary dates (first / last day of every month in a leap, non-leap, "
        "century and 400-year year; years 1, 1582, 1600, 1900, 1970, 2000, 2038, 9999) x times {00:00:00, "
        "23:59:59.999999999, 12:34:56.789} x UTC offsets -12:00..+14:00 in 15-minute steps, plus random instants / "
        "nanoseconds / offsets, both as timestamp('...') literals and as host Value::Timestamp variables; observed: "
        "every accessor, string(t) round trip, comparisons of one instant at different offsets, t + d, t - d, "
        "(t + d) - t, t1 - t2 with durations up to +-292 years; oracle: proleptic-Gregorian civil-from-days on Python "
        "ints (cross-checked against datetime) with nanoseconds carried separately; non-trivial = timestamp off the "
        "2023-05-28Z example of the suite; distinct = distinct (source, context)")
ASSUMPTIONS = ["field origins as the repository's tests document them: month, day-of-month, day-of-year, day-of-week "
               "0-based (Sunday = 0), date 1-based",
               "results of t +/- d outside years 0001-9999 may be an error or a value (not judged), never a panic"]

NS = 1_000_000_000
DAY = 86400
MIN_SECS = -62135596800          # 0001-01-01T00:00:00Z
MAX_SECS = 253402300799          # 9999-12-31T23:59:59Z


def civil_from_days(z):
    """days since 1970-01-01 -> (year, month, day); proleptic Gregorian (Hinnant)."""
    z += 719468
    era = (z if z >= 0 else z - 146096) // 146097
    doe = z - era * 146097
    yoe = (doe - doe // 1460 + doe // 36524 - doe // 146096) // 365
    y = yoe + era * 400
    doy = doe - (365 * yoe + yoe // 4 - yoe // 100)
    mp = (5 * doy + 2) // 153
    d = doy - (153 * mp + 2) // 5 + 1
    m = mp + 3 if mp < 10 else mp - 9
    return (y + (1 if m <= 2 else 0), m, d)


def days_from_civil(y, m, d):
    y -= 1 if m <= 2 else 0
    era = (y if y >= 0 else y - 399) // 400
    yoe = y - era * 400
    doy = (153 * (m + (-3 if m > 2 else 9)) + 2) // 5 + d - 1
    doe = yoe * 365 + yoe // 4 - yoe // 100 + doy
    return era * 146097 + doe - 719468


def fields(secs, nanos, off):
    """Calendar fields of the local time at the timestamp's own offset."""
    local = secs + off
    days, sod = divmod(local, DAY)
    y, m, d = civil_from_days(days)
    doy = days - days_from_civil(y, 1, 1)
    dow = (days + 4) % 7
    return {"getFullYear": y, "getMonth": m - 1, "getDayOfMonth": d - 1, "getDate": d, "getDayOfYear": doy,
            "getDayOfWeek": dow, "getHours": sod // 3600, "getMinutes": sod % 3600 // 60, "getSeconds": sod % 60,
            "getMilliseconds": nanos // 1_000_000}


ACCESSORS = ["getFullYear", "getMonth", "getDayOfMonth", "getDate", "getDayOfYear", "getDayOfWeek", "getHours", "getMinutes",
             "getSeconds", "getMilliseconds"]


def rfc3339(secs, nanos, off, frac_digits=None):
    local = secs + off
    days, sod = divmod(local, DAY)
    y, m, d = civil_from_days(days)
    if not (1 <= y <= 9999):
        return None
    s = "%04d-%02d-%02dT%02d:%02d:%02d" % (y, m, d, sod // 3600, sod % 3600 // 60, sod % 60)
    if nanos or frac_digits:
        f = "%09d" % nanos
        if frac_digits is None:
            f = f.rstrip('0')
        else:
            f = f[:frac_digits] if int(f[frac_digits:] or 0) == 0 else f
        if f:
            s += "." + f
    if off == 0:
        s += "Z"
    else:
        a = abs(off)
        s += "%s%02d:%02d" % ('+' if off > 0 else '-', a // 3600, a % 3600 // 60)
    return s


def boundary_dates():
    out = []
    mdays = [31, 28, 31, 30, 31, 30, 31, 31, 30, 31, 30, 31]
    for y in (2024, 2023, 1900, 2000):
        leap = (y % 4 == 0 and y % 100 != 0) or y % 400 == 0
        for m in range(1, 13):
            last = mdays[m - 1] + (1 if (m == 2 and leap) else 0)
            out.append((y, m, 1))
            out.append((y, m, last))
    for y in (1, 1582, 1600, 1970, 2038, 9999, 2100, 1800, 4):
        out += [(y, 1, 1), (y, 2, 28), (y, 3, 1), (y, 12, 31), (y, 10, 15)]
    out += [(2023, 5, 28), (1582, 10, 4), (1582, 10, 15), (1969, 12, 31), (2038, 1, 19), (2016, 2, 29), (9999, 12, 30)]
    return sorted(set(out))


TIMES = [(0, 0), (86399, 999_999_999), (12 * 3600 + 34 * 60 + 56, 789_000_000)]
OFFSETS_ALL = [m * 60 for m in range(-12 * 60, 14 * 60 + 1, 15)]
OFFSETS_QUICK = [-12 * 3600, -3 * 3600 - 1800, 0, 5 * 3600 + 2700, 14 * 3600, 3600, -3600 * 8]


def units(tier, seed):
    dates = boundary_dates()
    us = []
    step = 12
    for i in range(0, len(dates), step):
        us.append(('fields', i, min(len(dates), i + step), tier))
    us.append(('compare',))
    us.append(('arith',))
    for i in range(12 if tier == 'quick' else 640):
        us.append(('random', i))
    return us


def ts_items(secs, nanos, off, both_forms=True):
    """All checks for one timestamp."""
    items = []
    # the statement ranges over the year *written* (local time at the timestamp's own offset): 0001-9999
    if not (MIN_SECS <= secs + off <= MAX_SECS):
        return items
    text = rfc3339(secs, nanos, off)
    f = fields(secs, nanos, off)
    t = TS(secs, nanos, off)
    exp_list = ('ok', L([I(f[a]) for a in ACCESSORS]))
    prog = "[" + ", ".join("t.%s()" % a for a in ACCESSORS) + "]"
    nt = (secs, off) != (1685232000, 0)
    items.append((exec_case(0, prog, [("t", t)]), exp_list, 'accessors (host timestamp)', nt))
    items.append((exec_case(0, "timestamp(string(t))", [("t", t)]), ('ok', t), 'string round trip', nt))
    items.append((exec_case(0, "timestamp(string(t)) == t", [("t", t)]), ('ok', B(True)), 'string round trip', nt))
    if text is not None and both_forms:
        lit = "timestamp(%s)" % render_string(text)
        items.append((exec_case(0, lit), ('ok', t), 'timestamp() of an RFC 3339 string', nt))
        prog2 = "[" + ", ".join("%s(%s)" % (a, lit) if i % 2 else "%s.%s()" % (lit, a) for i, a in enumerate(ACCESSORS)) + "]"
        items.append((exec_case(0, prog2), exp_list, 'accessors (literal)', nt))
    return items


def run_items(res, drv, items, tag):
    for part in chunks(items, 5000):
        cases = []
        for i, it in enumerate(part):
            c = dict(it[0])
            c["id"] = i
            cases.append(c)
        out = drv.run(cases, tag)
        for c, r, (_, exp, feat, nt) in zip(cases, out, part):
            res.evaluations += 1
            if nt:
                res.nt(c["src"] + str(c.get("vars")))
            o = top_outcome(r)
            res.count(feat + ":" + (o[1] if o[0] == 'err' else o[0]))
            if is_crash(o):
                res.violation(o[0], feat, crash_sig(o), c, observed=list(o))
            elif exp == 'error-or-any':
                pass
            elif not same_outcome(exp, o):
                res.violation('wrong-value' if (o[0] == 'ok' and exp[0] == 'ok') else 'wrong-outcome', feat,
                              'differs from the calendar model', c, expected=fmt_outcome(exp), observed=fmt_outcome(o))
    if items:
        res.sample({"src": items[len(items) // 2][0]["src"][:300], "vars": items[len(items) // 2][0].get("vars")}, cap=1)


def arith_items(t, dns):
    secs, nanos, off = t[1]
    items = []
    inst = secs * NS + nanos
    r = inst + dns
    rs, rn = divmod(r, NS)
    vs = [("t", t), ("d", DUR(dns))]
    inrange = MIN_SECS <= rs <= MAX_SECS and MIN_SECS <= rs + off <= MAX_SECS
    if inrange:
        tr = TS(rs, rn, off)
        items.append((exec_case(0, "t + d", vs), ('ok', tr), 't + d', True))
        items.append((exec_case(0, "d + t", vs), ('ok', tr), 't + d', True))
        items.append((exec_case(0, "t + d - d == t", vs), ('ok', B(True)), 't + d - d == t', True))
        items.append((exec_case(0, "(t + d) - t == d", vs), ('ok', B(True)), '(t + d) - t == d', True))
        items.append((exec_case(0, "(t + d) - t", vs), ('ok', DUR(dns)), '(t + d) - t == d', True))
        items.append((exec_case(0, "(t + d) %s t" % ('>' if dns > 0 else ('<' if dns < 0 else '==')), vs), ('ok', B(True)), 'ordering after arithmetic', True))
    else:
        items.append((exec_case(0, "t + d", vs), 'error-or-any', 't + d outside 0001-9999', True))
    r2 = inst - dns
    rs2, rn2 = divmod(r2, NS)
    if MIN_SECS <= rs2 <= MAX_SECS and MIN_SECS <= rs2 + off <= MAX_SECS:
        items.append((exec_case(0, "t - d", vs), ('ok', TS(rs2, rn2, off)), 't - d', True))
    else:
        items.append((exec_case(0, "t - d", vs), 'error-or-any', 't - d outside 0001-9999', True))
    return items


def self_check():
    # cross-check the hand-written calendar against datetime where both apply
    for secs in (0, 951782400, 1685232000, -2208988800, 253402300799, -62135596800, 4102444800, 68169600):
        dt = datetime.datetime(1970, 1, 1) + datetime.timedelta(seconds=secs)
        f = fields(secs, 0, 0)
        assert (f["getFullYear"], f["getMonth"] + 1, f["getDate"]) == (dt.year, dt.month, dt.day), secs
        assert f["getDayOfYear"] == dt.timetuple().tm_yday - 1
        assert f["getDayOfWeek"] == (dt.weekday() + 1) % 7


def run_unit(unit, drv, res, seed, tier):
    self_check()
    kind = unit[0]
    if kind == 'fields':
        dates = boundary_dates()[unit[1]:unit[2]]
        offsets = OFFSETS_ALL if unit[3] == 'thorough' else OFFSETS_QUICK
        items = []
        for (y, m, d) in dates:
            for sod, nanos in TIMES:
                for k, off in enumerate(offsets):
                    if unit[3] != 'thorough':
                        off = offsets[k] if (y + m + d + k) % 2 == 0 else OFFSETS_ALL[(y * 7 + m * 13 + d * 5 + k * 31 + sod) % len(OFFSETS_ALL)]
                    local = days_from_civil(y, m, d) * DAY + sod
                    secs = local - off
                    items += ts_items(secs, nanos, off)
        run_items(res, drv, items, 'fields')
        res.exhaustive_done['boundary-dates-x-times-x-offsets'] = True
    elif kind == 'compare':
        items = []
        insts = [(0, 0), (1685232000, 0), (951782399, 999_999_999), (MIN_SECS + 86400, 0), (MAX_SECS - 86400, 999_999_999), (-1, 500)]
        offs = [0, 3600, -3600, 14 * 3600, -12 * 3600, 19800]
        for (s1, n1) in insts:
            for (s2, n2) in insts:
                for o1 in offs[:4]:
                    for o2 in offs[2:]:
                        a, b = TS(s1, n1, o1), TS(s2, n2, o2)
                        x, y = s1 * NS + n1, s2 * NS + n2
                        vs = [("a", a), ("b", b)]
                        for rel, f in (('==', x == y), ('!=', x != y), ('<', x < y), ('<=', x <= y), ('>', x > y), ('>=', x >= y)):
                            items.append((exec_case(0, "a %s b" % rel, vs), ('ok', B(f)), 'comparison by instant', True))
                        dd = x - y
                        if I64_MIN <= dd <= I64_MAX:
                            items.append((exec_case(0, "a - b", vs), ('ok', DUR(dd)), 't1 - t2', True))
        run_items(res, drv, items, 'compare')
        res.exhaustive_done['instants-x-offsets'] = True
    elif kind == 'arith':
        items = []
        ts = [TS(0, 0, 0), TS(1685232000, 123456789, 3600), TS(951782400, 0, -18000), TS(MIN_SECS, 0, 0), TS(MAX_SECS, 999_999_999, 0),
              TS(MIN_SECS + 43200, 0, -43200), TS(MAX_SECS - 50400, 0, 50400), TS(-1, 999_999_999, 0), TS(68169599, 999_999_999, 0)]
        ds = [0, 1, -1, NS, -NS, 86400 * NS, -86400 * NS, 999_999_999, I64_MAX, I64_MIN, I64_MAX - 1, 365 * 86400 * NS, -366 * 86400 * NS,
              3600 * NS, 1_500_000_000, -(292 * 365 * 86400 * NS), 200 * 365 * 86400 * NS]
        for t in ts:
            for d in ds:
                items += arith_items(t, d)
        run_items(res, drv, items, 'arith')
        res.exhaustive_done['boundary-arithmetic'] = True
    else:
        rng = rng_for(seed, 'C16', unit[1])
        items = []
        for _ in range(500):
            secs = rng.randint(MIN_SECS + 86400, MAX_SECS - 86400) if rng.random() < 0.7 else rng.randint(-2 ** 31, 2 ** 32)
            nanos = rng.choice([0, 1, 999_999_999, 123_000_000, rng.randint(0, 999_999_999)])
            off = rng.choice(OFFSETS_ALL)
            items += ts_items(secs, nanos, off)
            m = rng.random()
            if m < 0.6:
                bits = rng.randint(0, 63)
                d = rng.getrandbits(bits) if bits else 0
                d = -d if rng.random() < 0.5 else d
                items += arith_items(TS(secs, nanos, off), max(I64_MIN, min(I64_MAX, d)))
        run_items(res, drv, items, 'random')


def recheck(cases, out, res):
    for c, r in zip(cases, out):
        print("observed:", str(r)[:800])
