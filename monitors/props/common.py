"""Helpers shared by the property monitors."""
import json
import random

from celmodel.values import (to_json, from_json, struct_eq, canon, top_outcome, outcome, is_crash,
                             I64_MIN, I64_MAX, U64_MAX)


def rng_for(seed, *parts):
    return random.Random("%s|%s" % (seed, "|".join(str(p) for p in parts)))


def exec_case(cid, src, variables=None, inner=None, **opts):
    c = {"id": cid, "op": "exec", "src": src}
    if variables:
        c["vars"] = [[n, to_json(v)] for n, v in variables]
    if inner:
        c["inner"] = [[n, to_json(v)] for n, v in inner]
    if opts:
        c["opts"] = opts
    return c


def fmt_outcome(o):
    if o[0] == 'ok':
        return {"ok": to_json(o[1])}
    if o[0] == 'err':
        return {"err_class": o[1], "variant": o[2] if len(o) > 2 else None}
    return list(o)


def crash_sig(o):
    """Behaviour class of a crash: message with digits stripped + file basename (no line)."""
    if o[0] == 'panic':
        msg = ''.join('#' if ch.isdigit() else ch for ch in o[1])[:80]
        return 'panic:%s@%s' % (msg, o[2])
    if o[0] == 'abort':
        err = o[2] if len(o) > 2 else ''
        for marker in ('AddressSanitizer', 'ThreadSanitizer', 'Undefined Behavior', 'data race', 'stack overflow'):
            if marker in err:
                line = next((l.strip() for l in err.splitlines() if marker in l), marker)
                return 'abort:%s:%s' % (marker, ''.join('#' if c.isdigit() else c for c in line)[:90])
        return 'abort:%s' % (o[1],)
    return o[0]


def check_total(res, case, rec, prop_feature, key='res'):
    """Totality: flag panic/abort/hang. Returns the outcome."""
    o = top_outcome(rec, key)
    if is_crash(o):
        res.violation(o[0], prop_feature, crash_sig(o), case, expected="a value or an error",
                      observed=list(o))
    elif o[0] == 'inconclusive':
        res.inconclusive.append("case %s: %s" % (case.get('id'), o[1]))
    return o


# Which observed error classes satisfy an expected one. The properties name overflow, division by zero,
# missing key and undeclared reference specifically; for everything else ("an error") the concrete
# ExecutionError variant is the implementation's business, so those classes are interchangeable.
GENERIC = {'type', 'function', 'arg_count', 'other'}
ERR_COMPAT = {
    'overflow': {'overflow'},
    'div_by_zero': {'div_by_zero'},
    'no_such_key': {'no_such_key'},
    'undeclared': {'undeclared'},
    'not_comparable': {'not_comparable'} | GENERIC,
    'type': GENERIC | {'not_comparable'},
    'function': GENERIC | {'overflow'},          # conversion / host failure: "an error"
    'arg_count': GENERIC,
    'other': GENERIC,
    '*': {'overflow', 'div_by_zero', 'no_such_key', 'undeclared', 'not_comparable'} | GENERIC,
}


def same_outcome(exp, obs):
    """exp: ('ok', v) | ('err', cls[, detail]); obs: normalised driver outcome."""
    if exp[0] == 'ok':
        return obs[0] == 'ok' and struct_eq(exp[1], obs[1])
    if exp[0] == 'err':
        return obs[0] == 'err' and obs[1] in ERR_COMPAT.get(exp[1], {exp[1]})
    return False


def any_outcome_matches(exps, obs):
    return any(same_outcome(e, obs) for e in exps)


def mismatch_kind(exp, obs):
    if is_crash(obs):
        return obs[0]
    if exp[0] == 'ok' and obs[0] == 'ok':
        return 'wrong-value'
    if exp[0] == 'err' and obs[0] == 'err':
        return 'wrong-error-class'
    if exp[0] == 'ok':
        return 'error-instead-of-value'
    return 'value-instead-of-error'


def chunks(xs, n):
    for i in range(0, len(xs), n):
        yield xs[i:i + n]


I64_BOUNDARY = sorted(set(
    [0, 1, -1, 2, -2, 3, -3, 7, -7, 10, -10] +
    [s * ((1 << k) + d) for k in (7, 8, 15, 16, 31, 32, 52, 53, 62) for d in (-1, 0, 1) for s in (1, -1)
     if k not in (7, 15)] +
    [I64_MIN, I64_MIN + 1, I64_MAX, I64_MAX - 1, 3037000499, -3037000499, 3037000500, -3037000500]))

U64_BOUNDARY = sorted(set(
    [0, 1, 2, 3, 7, 10, 255, 256] +
    [((1 << k) + d) for k in (8, 15, 16, 24, 31, 32, 33, 48, 52, 53, 62, 63) for d in (-1, 0, 1)] +
    [U64_MAX, U64_MAX - 1, U64_MAX - 2, 4294967295, 4294967296, 4294967297, 6074000999,
     I64_MAX, I64_MAX + 1, I64_MAX + 2, 3037000499, 3037000500, 4294967295 * 2,
     (1 << 64) // 3, (1 << 64) // 3 + 1, (1 << 63) + (1 << 62), 1000000007, 999999999999]))


def norm_log(log):
    """Host-call logs are compared as JSON; NaN payload / sign bits are not part of a value."""
    def n(x):
        if isinstance(x, dict):
            if len(x) == 1 and 'd' in x and isinstance(x['d'], int):
                b = x['d']
                if (b & 0x7ff0000000000000) == 0x7ff0000000000000 and (b & 0x000fffffffffffff):
                    return {"d": "NaN"}
                return x
            return {k: n(v) for k, v in x.items()}
        if isinstance(x, list):
            return [n(v) for v in x]
        return x
    return n(log or [])
