"""C01 — compiling any source text ends in a program or positioned errors."""
import os
import itertools

from celmodel.values import top_outcome
from celmodel.recog import recognises, lex, LexError
from celmodel.expr import render_min, render_full
from celmodel.gen import UntypedGen
from .common import rng_for, crash_sig, chunks

RULE = ("compile() on: random character strings over a hostile alphabet (CEL punctuation, quotes, backslashes, "
        "controls, BOM, 2-4 byte UTF-8; length <= 64, some to 4 KiB), random token sequences (1-40 tokens of "
        "every lexer token kind incl. malformed number / string fragments), grammar-generated valid expressions "
        "(depth <= 8, nesting chains to 32, && / || chains of 64), every single-token insert / delete / replace / "
        "truncate mutation of valid expressions, whitespace-free dotted paths over names / keywords / non-names (exhaustive to 3 segments), lexically fine but undecodable or out-of-range literals at random places of single- and multi-line programs, five invalid-by-construction families (unbalanced bracket, "
        "dangling operator, trailing token, unterminated literal, unknown character) and exhaustively all "
        "sequences of <= 2 (quick) / <= 3 (thorough) tokens over a 45-token alphabet; non-trivial = text that "
        "is neither empty nor a single token; distinct = distinct text")
ASSUMPTIONS = ["acceptance is judged one-way: texts built to be invalid must be rejected, and an accepted text "
               "must be accepted by the hand-written recogniser of CEL.g4 (celmodel/recog.py)",
               "error columns may be counted in code points or bytes; the bound uses the larger"]

TOKENS = ['==', '!=', 'in', '<', '<=', '>=', '>', '&&', '||', '[', ']', '{', '}', '(', ')', '.', ',', '-', '!', '?',
          ':', '+', '*', '/', '%', 'true', 'false', 'null', 'a', 'f', '`e i`', '1', '0x1F', '2u', '1.5', '.5e3',
          "'s'", '"t"', "r'\\n'", "'''q'''", "b'y'", '0x', '1e', "'u", '@']
assert len(TOKENS) == 45
MORE_TOKENS = ['has', 'all', 'map', 'x', 'size', '9223372036854775808', '18446744073709551616u', '1e999', '"\\x41"',
               '"\\q"', 'b"\\xff"', 'B"a"', 'R"a"', "'\\u00e9'", "'\\ud800'", "'\\U00110000'", "'\\400'", '"""a"b"""',
               '//c\n', ' ', '\n', '\t', '1u2', '0xG', '..', 'ä', '日本', ' ', ' ', '\x0b', '\x00',
               '﻿', '𝄞', '\\', '#', '$', '~', '^', ';', '|', '&', '=', '"', "'", '`', "'''", '"""', 'r"', "b'"]
CHARS = list("()[]{}.,-!?:+*/%<>=&|'\"\\`@#$~^; \t\n\r\f\x00\x0b") + list("01239aefuxXbBrRn_") + \
    ['ä', '日', '𝄞', '﻿', ' ', ' ', '\u0085', '　', '​', '\x7f', 'é']
UNKNOWN_CHARS = ['@', '#', '$', '~', '^', '\\', ';', '|', '&', '=', 'ä', ' ', '\x00', '﻿', ' ', '\x0b',
                 '\u0085', '　', '​', '𝄞', '`', "'", '"']


def units(tier, seed):
    us = [('exh', 1), ('exh', 2)]
    if tier == 'thorough':
        for i in range(len(TOKENS)):
            us.append(('exh3', i))
    n = 6 if tier == 'quick' else 180
    for i in range(n):
        us.append(('chars', i))
        us.append(('tokens', i))
        us.append(('valid', i))
        us.append(('mutants', i))
        us.append(('invalid', i))
    us.append(('nesting',))
    us.append(('macrocalls',))
    us.append(('paths',))
    for i in range(2 if tier == 'quick' else 96):
        us.append(('literalerrs', i))
    return us


def line_bounds(src):
    lines = src.split('\n')
    return lines


def check_compile(res, case, rec, must_reject=None, valid_by_construction=False):
    """The C01 oracle for one compile event."""
    res.evaluations += 1
    src = case["src"]
    if isinstance(rec, dict) and any(k in rec for k in ('panic', 'abort', 'hang')):
        o = top_outcome(rec)
        res.violation(o[0], 'compile', crash_sig(o), case, expected="Ok or Err(non-empty errors)", observed=list(o))
        res.count("outcome:" + o[0])
        return
    if not isinstance(rec, dict) or ('ok' not in rec and 'errs' not in rec):
        res.inconclusive.append("compile record: " + str(rec)[:200])
        return
    if len(src) > 1 and not (src.strip() in TOKENS):
        res.nt(src)
    if 'ok' in rec:
        res.count("outcome:accepted")
        if must_reject:
            res.violation('accepted', 'invalid by construction: ' + must_reject, 'compiled', case,
                          expected="rejected", observed="compiled")
        elif not recognises(src):
            res.violation('accepted', 'text that is not one complete expression', 'compiled', case,
                          expected="rejected (CEL.g4 recogniser does not accept it)", observed="compiled")
        return
    res.count("outcome:rejected")
    if valid_by_construction:
        res.count("valid_by_construction_rejected")
    errs = rec['errs']
    if len(errs) == 0:
        res.violation('empty-error-list', 'compile', 'Err with no errors', case, observed=rec)
        return
    res.count("errors_reported", len(errs))
    lines = src.split('\n')
    for e in errs:
        if not e.get('disp') or not e['disp'].strip() or not e.get('msg'):
            res.violation('empty-error-text', 'compile', 'error renders to empty text', case, observed=e)
            continue
        l, c = e['l'], e['c']
        if (l, c) == (0, 0):
            res.count("position:unknown")
            continue
        ok = 1 <= l <= len(lines)
        if ok:
            line = lines[l - 1]
            ok = 1 <= c <= 1 + max(len(line), len(line.encode('utf-8', 'surrogatepass')))
        if not ok:
            res.violation('position-out-of-source', 'compile', 'line/column beyond the source', case,
                          expected="1 <= line <= %d, column within the line" % len(lines), observed=[l, c, e['msg'][:80]])
        else:
            res.count("position:inside")
    if not rec.get('all'):
        res.violation('empty-error-text', 'compile', 'ParseErrors renders to empty text', case, observed=rec)


def run_texts(res, drv, texts, tag, must_reject=None, valid=False):
    for part in chunks(texts, 6000):
        cases = [{"id": i, "op": "compile", "src": t} for i, t in enumerate(part)]
        out = drv.run(cases, tag)
        for c, r in zip(cases, out):
            check_compile(res, c, r, must_reject, valid)
    if texts:
        res.sample({"src": texts[len(texts) // 3][:200], "family": tag}, cap=1)


def valid_expr(rng, depth=None):
    g = UntypedGen(rng)
    e = g.gen(depth if depth is not None else rng.choice([1, 2, 3, 4, 5, 6, 8]))
    try:
        return render_min(e, rng, rng.choice([0, 0, 0.1])) if rng.random() < 0.8 else render_full(e)
    except ValueError:
        return "a + 1"


def run_unit(unit, drv, res, seed, tier):
    kind = unit[0]
    rng = rng_for(seed, 'C01', *unit)
    if kind == 'exh':
        n = unit[1]
        texts = [' '.join(t) for t in itertools.product(TOKENS, repeat=n)]
        if n == 1:
            texts = [''] + texts + MORE_TOKENS
        run_texts(res, drv, texts, 'exh%d' % n)
        res.exhaustive_done['token-sequences-len-%d' % n] = True
    elif kind == 'exh3':
        first = TOKENS[unit[1]]
        texts = [' '.join((first,) + t) for t in itertools.product(TOKENS, repeat=2)]
        run_texts(res, drv, texts, 'exh3')
        res.exhaustive_done['token-sequences-len-3'] = True
    elif kind == 'chars':
        texts = []
        for _ in range(2500):
            n = rng.choice([0, 1, 2, 3, 5, 8, 13, 21, 34, 64]) if rng.random() < 0.97 else rng.randint(200, 1300)
            texts.append(''.join(rng.choice(CHARS) for _ in range(n)))
        run_texts(res, drv, texts, 'chars')
    elif kind == 'tokens':
        texts = []
        alltok = TOKENS + MORE_TOKENS
        for _ in range(2500):
            n = rng.randint(1, 40)
            sep = rng.choice([' ', ' ', '', '\n', ' \t'])
            texts.append(sep.join(rng.choice(alltok) for _ in range(n)))
        run_texts(res, drv, texts, 'tokens')
    elif kind == 'valid':
        texts = [valid_expr(rng) for _ in range(1500)]
        run_texts(res, drv, texts, 'valid', valid=True)
    elif kind == 'mutants':
        texts = []
        alltok = TOKENS + MORE_TOKENS
        for _ in range(250):
            src = valid_expr(rng, rng.choice([1, 2, 3, 4]))
            try:
                toks = [t[1] for t in lex(src)]
            except LexError:
                continue
            for i in range(len(toks) + 1):
                m = rng.random()
                ins = toks[:i] + [rng.choice(alltok)] + toks[i:]
                texts.append(' '.join(ins))
                if i < len(toks):
                    if m < 0.5:
                        texts.append(' '.join(toks[:i] + toks[i + 1:]))                      # delete
                    else:
                        texts.append(' '.join(toks[:i] + [rng.choice(alltok)] + toks[i + 1:]))  # replace
                if i and rng.random() < 0.3:
                    texts.append(' '.join(toks[:i]))                                          # truncate
        run_texts(res, drv, texts, 'mutants')
    elif kind == 'invalid':
        fam = {'unbalanced bracket': [], 'dangling operator': [], 'trailing token': [], 'unterminated literal': [],
               'unknown character': []}
        for _ in range(300):
            v = valid_expr(rng, rng.choice([0, 1, 2, 3]))
            v2 = valid_expr(rng, rng.choice([0, 1]))
            fam['unbalanced bracket'] += [rng.choice('([{') + ' ' + v, v + ' ' + rng.choice(')]}'),
                                          'f(' + v, '[' + v + ', ' + v2, '{' + v + ': ' + v2, '(' + v + ') )']
            op = rng.choice(['+', '*', '/', '%', '&&', '||', '==', '!=', '<', '<=', '>', '>=', 'in', '?', '.', ',', '-'])
            fam['dangling operator'] += [v + ' ' + op, rng.choice(['*', '/', '%', '&&', '||', '==', '<', 'in', '?', ':', ',', '+']) + ' ' + v,
                                         v + ' ? ' + v2 + ' :', v + ' ? ' + v2, v + ' ' + rng.choice(['+', '*', '&&']) + ' ' + rng.choice(['*', '/', '||', ')']) + ' ' + v2]
            trail = rng.choice(['zz', '7', "'s'", 'true', '1.5', 'null', '2u', 'b"x"', '(1)' if not v.rstrip().endswith(tuple('abcdefghijklmnopqrstuvwxyzABCDEFGHIJKLMNOPQRSTUVWXYZ_0123456789')) else 'zz'])
            fam['trailing token'] += [v + ' ' + trail, '(' + v + ') ' + trail]
            q = rng.choice(["'", '"', "'''", '"""', "r'", 'r"', "b'", 'b"', "R'''", 'br"'])
            fam['unterminated literal'] += [v + ' + ' + q + 'abc', q + 'abc', v + ' == ' + q + 'a\\', q + 'abc' + (q[-1] if len(q.lstrip('rRbB')) == 3 else '') * 2 if len(q.lstrip('rRbB')) == 3 else q + 'ab\\' + q[-1]]
            u = rng.choice(UNKNOWN_CHARS)
            if u in ("'", '"', '`'):
                fam['unknown character'] += [v + ' ' + u]
            else:
                fam['unknown character'] += [v + u, u + v, v + ' ' + u + ' ' + v2, v + ' ' + u]
        for name, texts in fam.items():
            # keep only texts that really are invalid by construction: guard against accidents of
            # the random pieces with the recogniser (a text it accepts is simply not used here)
            texts = [t for t in texts if not recognises(t)]
            run_texts(res, drv, texts, 'invalid:' + name, must_reject=name)
            res.count("invalid_family:" + name, len(texts))
    elif kind == 'macrocalls':
        # every macro name in both call styles with 0-4 arguments of several kinds: the macro lookup goes by
        # name, arity and receiver presence, and the expanders assume they are only called when those match
        texts = []
        args_pool = ['x', 'x > 1', '1', 'y.z', '[x]', 'x, y'.split(',')[0], '"s"', 'x.all(y, y)', 't(x)']
        for name in ('has', 'all', 'exists', 'exists_one', 'existsOne', 'map', 'filter'):
            for n in range(0, 5):
                for combo in itertools.product(args_pool[:5], repeat=n) if n <= 3 else [tuple(args_pool[:4]), ('x', 'x', 'x', 'x'), ('1', '2', '3', '4')]:
                    a = ', '.join(combo)
                    texts.append('%s(%s)' % (name, a))
                    texts.append('[1, 2, 3].%s(%s)' % (name, a))
                    texts.append('m.f.%s(%s)' % (name, a))
                    if n and combo[0] == 'x':
                        texts.append('l.%s(%s).%s(%s)' % (name, a, name, a))
        # the same calls laid out over several lines, every argument starting a line of its own (positions of macro
        # argument errors are computed from byte offsets by the tree builder)
        multi = []
        for t in texts:
            if '(' in t and len(multi) < 6000:
                multi.append(t.replace('(', '(\n').replace(', ', ',\n'))
                multi.append('\n' + t.replace(', ', ',\n  '))
                multi.append(t.replace('(', '(\r\n').replace(', ', ',\r\n'))
        texts = texts + multi
        run_texts(res, drv, texts, 'macrocalls')
        res.exhaustive_done['macro-names-x-arity-0-4'] = True
    elif kind == 'paths':
        # dotted / indexed / call paths written without any whitespace, every segment drawn from names,
        # keywords, reserved words and non-names: 'a.in', 'x.true.y', 'a.1', '.a', 'a..b' ... must be rejected,
        # plain name paths accepted; also bracketed and padded spellings of the same path
        segs = ['a', 'b_1', '_', 'in', 'true', 'false', 'null', 'has', 'all', 'size', '1', '', 'f()', 'x[0]', 'as', 'inn', 'True']
        texts = []
        for n in (1, 2, 3):
            for combo in itertools.product(segs, repeat=n):
                t = '.'.join(combo)
                texts += [t, ' ' + t + '\n', '(' + t + ')', t + '.z', 'q.' + t]
        for combo in itertools.product(['a', 'in', 'true', 'null', 'false', 'zz'], repeat=4):
            texts.append('.'.join(combo))
        texts = list(dict.fromkeys(texts))
        run_texts(res, drv, texts, 'paths')
        res.exhaustive_done['dotted-paths-len-1-3-over-17-segments'] = True
    elif kind == 'literalerrs':
        # literals the lexer accepts but the tree builder must refuse (undecodable escapes, numbers out of
        # range) at every place of single- and multi-line programs: the positions of those errors are
        # computed by the visitor, not by the ANTLR error listener
        bad_esc = ['\\ud800', '\\udfff', '\\uDBFF', '\\U00110000', '\\UFFFFFFFF', '\\U0000D800', '\\400', '\\777']
        bad_num = ['9223372036854775808', '99999999999999999999999', '18446744073709551616u', '0x8000000000000000',
                   '0xFFFFFFFFFFFFFFFFFu', '0x1FFFFFFFFFFFFFFFF', '-0x8000000000000000', '- 0x8000000000000000', '-9223372036854775808',
                   '-0x8000000000000001', '-9223372036854775809', '0x7FFFFFFFFFFFFFFF', '-0x7fffffffffffffff', '0xffffffffffffffffu',
                   '-0x0', '-0', '- 1', '-1u', '-0x1u', '1e400', '-1e400', '0x', '-0x']
        fill = ['', 'a', 'ab', 'abcdefghij', 'é', '日本語', '𝄞𝄞', ' ', '\t', 'x' * 40]
        nl = ['\n', '\n\n', '\r\n', '\n \n']
        texts = []
        for _ in range(400):
            parts = []
            for _k in range(rng.randint(1, 3)):
                kind2 = rng.random()
                if kind2 < 0.7:
                    q = rng.choice(["'''", '"""', "'''", '"""', "'", '"', "b'''", 'b"""', "b'"])
                    triple = len(q.lstrip('b')) == 3
                    body = ''
                    for _j in range(rng.randint(0, 4)):
                        body += rng.choice(fill) + (rng.choice(nl) if triple and rng.random() < 0.7 else '')
                    body += rng.choice(bad_esc)
                    for _j in range(rng.randint(0, 2)):
                        body += (rng.choice(nl) if triple and rng.random() < 0.5 else '') + rng.choice(fill)
                    if rng.random() < 0.3:
                        body += (rng.choice(nl) if triple else '') + rng.choice(bad_esc)
                    parts.append(q + body + q.lstrip('b'))
                else:
                    parts.append(rng.choice(bad_num))
            sep = rng.choice([' + ', '\n+\n', ' +\n', ', '])
            body = sep.join(parts)
            if sep == ', ':
                body = rng.choice(['[%s]', 'f(%s)', '[\n%s\n]']) % body
            lead = rng.choice(['', '', '\n', ' \n  ', 'x +\n', '\n\n\n', '[1,\n 2] + '])
            tail = rng.choice(['', '', '\n', ' + y', '\n+ y\n', ' )', ' +'])
            texts.append(lead + body + tail)
        run_texts(res, drv, texts, 'literalerrs')
    elif kind == 'nesting':
        texts = []
        for d in (1, 2, 4, 8, 16, 24, 31, 32):
            texts += ['(' * d + 'a' + ')' * d, '[' * d + '1' + ']' * d, '{1:' * d + '2' + '}' * d, 'f(' * d + 'x' + ')' * d,
                      'a' + '.b' * d, 'a' + '[0]' * d, 'a' + '.f()' * d, '!' * d + 'a', '-' * d + 'a', '-' * d + '1',
                      'true ? ' * d + '1' + ' : 0' * d, ' + '.join(['1'] * (d + 1)), ' && '.join(['a'] * (d + 1)),
                      '[1].map(x, ' * d + 'x' + ')' * d, 'a ? b : ' * d + 'c', '(' * d + 'a', 'a' + ')' * d,
                      '(' * d + 'a' + ')' * (d - 1), '[' * d + ']' * (d + 1), 'has(' * d + 'a.b' + ')' * d]
        texts += [' && '.join('a%d' % i for i in range(64)), ' || '.join('a%d' % i for i in range(64)),
                  ' && '.join(['a || b'] * 32), 'x' * 4000, '1' * 300, '"' + 'a' * 4000 + '"', ' ' * 4000, '(' * 33 + 'a' + ')' * 33]
        run_texts(res, drv, texts, 'nesting')
        res.exhaustive_done['nesting-chains'] = True


def recheck(cases, out, res):
    for c, r in zip(cases, out):
        print("observed:", str(r)[:600])
        check_compile(res, c, r)


def extra_stages(tier, seed, scratch, total, notes):
    """Thorough tier: replay part of the corpus through an AddressSanitizer build of the driver. A report
    aborts the driver; the in-flight case is then recorded as an abort whose stderr names the sanitizer."""
    if tier != 'thorough':
        return
    import runner
    try:
        binary, env, note = runner.build_variant('asan')
    except runner.Inconclusive as e:
        notes.append({"stage": "asan", "result": "inconclusive (toolchain): " + str(e)[:300]})
        return
    sub = [('exh', 1), ('exh', 2), ('nesting',)] + [(k, i) for i in range(6) for k in ('chars', 'tokens', 'valid', 'mutants', 'invalid')]
    t = runner.run_units_with(__name__, sub, binary, os.path.join(scratch, "asan"), seed + 1000, 'quick', env=env)
    notes.append({"stage": "asan", "build": note, "units": len(sub), "executions": t.evaluations,
                  "sanitizer_reports": sum(1 for v in t.violations if 'Sanitizer' in v["sig"][2]),
                  "statement": "no AddressSanitizer report on these executions (not a proof of memory safety)" if not any('Sanitizer' in v["sig"][2] for v in t.violations) else "AddressSanitizer reported (see violations)"})
    t.observed = {"asan:" + k: v for k, v in t.observed.items() if not isinstance(v, set)}
    total.merge(t)
    miri_stage(seed, scratch, total, notes)


def _miri_compile(args):
    import runner
    cases, scratch, mseed, harness, tdir = args
    env = runner.cargo_env()
    env["MIRIFLAGS"] = "-Zmiri-disable-isolation -Zmiri-seed=%d" % mseed
    drv = runner.Driver(None, scratch, env=env, wrapper=["cargo", "+nightly", "miri", "run", "--offline", "--target-dir", tdir, "--"], cwd=harness)
    res = runner.UnitResult()
    try:
        out = drv.run(cases, "miri", watchdog=2400)
    except runner.Inconclusive as e:
        res.inconclusive.append("miri: " + str(e)[:300])
        return res
    for c, r in zip(cases, out):
        res.count("miri_compiles")
        check_compile(res, c, r)
    res.inconclusive.extend(drv.inconclusive)
    return res


MIRI_FIXED = ["'''\na\\ud800'''", "a.in", "x.true.y", "99999999999999999999", "'\\U00110000' + 1", "b'\\u0041'", "[1,\n 2] + '\\400'", "0x", "1e",
              "1u2", "a ? b", "a ? b : c ? d", "has(a)", "has(a.b).c", "[].map(x, y, z, w)", "x.all(1, true)", "f(,)", "{1:}", "{:1}", "a.b(", "a[",
              "a[]", "--9223372036854775808", "-(-9223372036854775808)", "", " ", "﻿", "1 +", "ä", "𝄞", "`e i`", "r'''\x00'''", "a.b.c.d.e.f"]


def miri_stage(seed, scratch, total, notes, nproc=14, per=50):
    """The parser itself (antlr4rust is full of `unsafe`) under Miri: short hostile texts of every family."""
    import runner
    import time as _t
    from concurrent.futures import ProcessPoolExecutor
    try:
        runner._alt_repo()
        rng = rng_for(seed, 'C01', 'miri')
        pool = list(MIRI_FIXED)
        alltok = TOKENS + MORE_TOKENS
        for _ in range(4000):
            m = rng.random()
            if m < 0.3:
                t = ''.join(rng.choice(CHARS) for _ in range(rng.choice([1, 2, 3, 5, 8, 13])))
            elif m < 0.6:
                t = rng.choice([' ', '', ' ', '\n']).join(rng.choice(alltok) for _ in range(rng.randint(1, 7)))
            elif m < 0.8:
                t = valid_expr(rng, rng.choice([0, 1, 2]))
            else:
                v = valid_expr(rng, rng.choice([0, 1]))
                t = rng.choice([v + ' ' + rng.choice(['+', '&&', '?', '.', ')', ']', "'abc", '"', '@', '\\']), rng.choice('([{') + v, v + ' ' + v])
            if len(t.encode('utf-8')) <= 48:
                pool.append(t)
        pool = list(dict.fromkeys(pool))
        head, tail = pool[:len(MIRI_FIXED)], pool[len(MIRI_FIXED):]
        rng.shuffle(tail)
        pool = head + tail
        jobs = []
        for m in range(nproc):
            texts = pool[m::nproc][:per]
            cases = [{"id": i, "op": "compile", "src": t} for i, t in enumerate(texts)]
            jobs.append((cases, os.path.join(scratch, "miri%d" % m), 1 + m, runner.HARNESS, runner.TARGET + "-miri"))
        t0 = _t.time()
        results = [_miri_compile((jobs[0][0][:2],) + jobs[0][1:])]        # the first call also builds
        with ProcessPoolExecutor(max_workers=nproc) as ex:
            results += list(ex.map(_miri_compile, [(jobs[0][0][2:],) + jobs[0][1:]] + jobs[1:]))
        mt = runner.UnitResult()
        for r in results:
            mt.merge(r)
        notes.append({"stage": "miri (parser)", "processes": nproc, "compiles": mt.observed.get("miri_compiles", 0), "wall_s": round(_t.time() - t0, 1),
                      "reports": len(mt.violations), "inconclusive": mt.inconclusive[:3],
                      "statement": "no undefined behaviour reported by Miri while compiling these texts (not a proof of memory safety)" if not mt.violations else "Miri / the oracle reported (see violations)"})
        mt.observed = {"miri:" + k: v for k, v in mt.observed.items() if not isinstance(v, set)}
        total.merge(mt)
    except runner.Inconclusive as e:
        notes.append({"stage": "miri (parser)", "result": "inconclusive (toolchain): " + str(e)[:300]})
