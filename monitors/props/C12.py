"""C12 — string and bytes literals denote exactly the characters written."""
import itertools

from celmodel.values import S, Y, top_outcome, is_crash, canon
from .common import exec_case, rng_for, crash_sig, chunks, fmt_outcome, same_outcome

RULE = ("single-escape sweep: all 256 \\xHH (both hex cases, \\x and \\X), all 256 valid \\OOO, all 65536 \\uHHHH "
        "(quick: every 8th code point + all boundaries), \\U plane boundaries +-1, surrogate and > 10FFFF ranges + a "
        "random sample, every single-character escape - each in single, double, triple-single and triple-double "
        "quoting, alone and embedded; the raw forms with the same bodies (verbatim expected); bytes literals (\\x, "
        "\\OOO, single-character escapes, literal UTF-8) in every quoting and b/B x r/R prefix; random strings / byte "
        "strings rendered in every applicable style with a random escape-or-verbatim choice per character; malformed and "
        "code-point escapes (also after a decoded prefix) alternating with well-formed probe literals in one driver thread; observed: "
        "value of executing a program consisting of the literal; non-trivial = literal containing an escape, a quote "
        "or a non-ASCII character; distinct = distinct literal text")
ASSUMPTIONS = ["\\u / \\U inside bytes literals are not exercised (not pinned down by the statement)",
               "oracle: a literal encoder written from the CEL specification; the expected value is the string / "
               "byte string the encoder started from"]

SIMPLE = {'a': 0x07, 'b': 0x08, 'f': 0x0c, 'n': 0x0a, 'r': 0x0d, 't': 0x09, 'v': 0x0b, '\\': 0x5c, '?': 0x3f,
          '"': 0x22, "'": 0x27, '`': 0x60}
REV_SIMPLE = {v: k for k, v in SIMPLE.items()}
QUOTES = ["'", '"', "'''", '"""']

F1 = "non-raw string literal: escape of the other quote character"
F2 = "non-raw triple-quoted string literal with a verbatim delimiter-kind quote in the body"
F3 = "raw triple-quoted literal containing U+0000 or U+10FFFF verbatim"


def f3(body, q):
    return len(q) == 3 and ('\x00' in body or '\U0010ffff' in body)


def wrap(body, q, prefix=''):
    return prefix + q + body + q


def decode_simple(body):
    """Decode the small escape vocabulary used by the multi-literal family (reference decoder)."""
    out, i = [], 0
    while i < len(body):
        c = body[i]
        if c != '\\':
            out.append(c)
            i += 1
            continue
        n = body[i + 1]
        if n in SIMPLE:
            out.append(chr(SIMPLE[n]))
            i += 2
        elif n in 'xX':
            out.append(chr(int(body[i + 2:i + 4], 16)))
            i += 4
        elif n == 'u':
            out.append(chr(int(body[i + 2:i + 6], 16)))
            i += 6
        elif n in '0123':
            out.append(chr(int(body[i + 1:i + 4], 8)))
            i += 4
        else:
            raise ValueError(body)
    return ''.join(out)


def units(tier, seed):
    us = [('x',), ('oct',), ('simple',), ('U',), ('raw',), ('bytes',), ('invalid',), ('f1',), ('f2',), ('pairs',), ('multi',)]
    step = 8 if tier == 'quick' else 1
    nchunks = 8 if tier == 'quick' else 32
    per = 65536 // nchunks
    for i in range(nchunks):
        us.append(('u', i * per, (i + 1) * per, step))
    for i in range(12 if tier == 'quick' else 768):
        us.append(('random', i))
    return us


def judge(res, c, r, exp, family, feature=None):
    """exp: ('ok', value) or 'reject'."""
    res.evaluations += 1
    src = c["src"]
    if '\\' in src or not src.isascii() or src.count('"') + src.count("'") > 6:
        res.nt(src)
    o = top_outcome(r)
    res.count(family + ":" + (o[0] if o[0] != 'err' else o[1]))
    if is_crash(o):
        res.violation(o[0], family, crash_sig(o), c, observed=list(o))
        return
    if exp == 'reject':
        if o[0] != 'compile_err':
            res.violation('accepted', family, 'escape naming no valid code point compiled', c,
                          expected="compile error", observed=fmt_outcome(o))
        return
    if o[0] == 'compile_err':
        res.violation('rejected', feature or family, 'compile error', c, expected=fmt_outcome(exp), observed=str(o[1])[:200])
        return
    if not same_outcome(exp, o):
        beh = 'value differs'
        if feature == F1 and o[0] == 'ok' and o[1][0] == 's' and exp[1][0] == 's':
            # exact description of the known wrong computation: the backslash is kept
            alt = c.get("_f1_alt")
            if alt is not None and o[1][1] == alt:
                beh = 'backslash retained'
        if feature == F2 and o[0] == 'ok' and o[1][0] == 's':
            alt = c.get("_f2_alt")
            if alt is not None and o[1][1] == alt:
                beh = 'delimiter-kind quotes dropped'
        res.violation('wrong-value', feature or family, beh, c, expected=fmt_outcome(exp), observed=fmt_outcome(o))


def run_items(res, drv, items, tag):
    """items: (src, exp, family[, feature, extra])"""
    for part in chunks(items, 8000):
        cases = []
        for i, it in enumerate(part):
            cases.append(exec_case(i, it[0]))
        out = drv.run(cases, tag)
        for c, r, it in zip(cases, out, part):
            if len(it) > 4 and it[4]:
                c = dict(c)
                c.update(it[4])
            judge(res, c, r, it[1], it[2], it[3] if len(it) > 3 else None)
    if items:
        res.sample({"src": items[len(items) // 2][0][:120]}, cap=1)


def each_quoting(esc, value_char, family, items, embed=True):
    """The escape text `esc` denoting `value_char`, in every quoting, alone and embedded."""
    for q in QUOTES:
        items.append((wrap(esc, q), ('ok', S(value_char)), family))
        if embed:
            items.append((wrap('a' + esc + 'b', q), ('ok', S('a' + value_char + 'b')), family))


def encode_string(rng, s, q, f1_ok=False):
    """Spell s in non-raw quoting q with a random escape-or-verbatim choice per character."""
    qc = q[0]
    other = '"' if qc == "'" else "'"
    triple = len(q) == 3
    out = []
    for i, ch in enumerate(s):
        o = ord(ch)
        choices = []
        verbatim_ok = ch != '\\' and ch != qc and (triple or ch not in '\n\r')
        if verbatim_ok:
            choices += ['v', 'v', 'v']
        if o in REV_SIMPLE and not (ch == other and not f1_ok):
            choices.append('s')
        if o <= 0xff:
            choices += ['x', 'o']
        if o <= 0xffff:
            choices.append('u')
        choices.append('U')
        k = rng.choice(choices)
        if k == 'v':
            out.append(ch)
        elif k == 's':
            out.append('\\' + REV_SIMPLE[o])
        elif k == 'x':
            out.append(('\\x%02x' if rng.random() < 0.5 else '\\X%02X') % o)
        elif k == 'o':
            out.append('\\%03o' % o)
        elif k == 'u':
            out.append(('\\u%04x' if rng.random() < 0.5 else '\\u%04X') % o)
        else:
            out.append('\\U%08x' % o)
    return wrap(''.join(out), q)


def encode_bytes(rng, b, q, prefix):
    qc = ord(q[0])
    triple = len(q) == 3
    out = []
    for o in b:
        choices = ['x', 'o']
        if 0x20 <= o < 0x7f and o != 0x5c and o != qc:
            choices += ['v', 'v']
        if o in (0x0a, 0x0d) and triple:
            choices.append('v')
        if o in REV_SIMPLE:
            choices.append('s')
        k = rng.choice(choices)
        if k == 'v':
            out.append(chr(o))
        elif k == 's':
            out.append('\\' + REV_SIMPLE[o])
        elif k == 'x':
            out.append(('\\x%02x' if rng.random() < 0.5 else '\\X%02X') % o)
        else:
            out.append('\\%03o' % o)
    return prefix + q + ''.join(out) + q


def raw_ok(s, q):
    qc = q[0]
    if len(q) == 1:
        return qc not in s and '\n' not in s and '\r' not in s
    return q not in s and not s.endswith(qc) and (qc * 2 + qc) not in s


def run_unit(unit, drv, res, seed, tier):
    kind = unit[0]
    rng = rng_for(seed, 'C12', *unit)
    items = []
    if kind == 'x':
        for v in range(256):
            for esc in ('\\x%02x' % v, '\\x%02X' % v, '\\X%02x' % v, '\\X%02X' % v):
                each_quoting(esc, chr(v), 'hex escape in a string', items)
        res.exhaustive_done['x-escapes'] = True
    elif kind == 'oct':
        for v in range(256):
            each_quoting('\\%03o' % v, chr(v), 'octal escape in a string', items)
        res.exhaustive_done['octal-escapes'] = True
    elif kind == 'simple':
        for k, v in SIMPLE.items():
            for q in QUOTES:
                qc = q[0]
                other = '"' if qc == "'" else "'"
                if k == other:
                    continue       # the other-quote escape is the F1 family
                esc = '\\' + k
                items.append((wrap(esc, q), ('ok', S(chr(v))), 'single-character escape'))
                items.append((wrap('a' + esc + 'b', q), ('ok', S('a' + chr(v) + 'b')), 'single-character escape'))
                items.append((wrap(esc + esc, q), ('ok', S(chr(v) * 2)), 'single-character escape'))
        # verbatim characters of every class, every quoting
        for ch in ['a', ' ', '\t', '\x00', '\x01', '\x7f', 'é', 'ÿ', 'Ā', '日', '￿', '𝄞', '\U0010ffff', '`', '?', '$']:
            for q in QUOTES:
                items.append((wrap(ch, q), ('ok', S(ch)), 'verbatim character'))
        for q, ch in (("'", '"'), ('"', "'"), ("'''", '"'), ('"""', "'"), ("'''", '\n'), ('"""', '\n'), ("'''", 'a\r\nb'), ('"""', "a''b"), ("'''", 'a""b')):
            items.append((wrap(ch, q), ('ok', S(ch)), 'verbatim character'))
        items.append(("''", ('ok', S("")), 'empty literal'))
        items.append(('""', ('ok', S("")), 'empty literal'))
        items.append(("''''''", ('ok', S("")), 'empty literal'))
        items.append(('""""""', ('ok', S("")), 'empty literal'))
        res.exhaustive_done['single-character-escapes'] = True
    elif kind == 'u':
        lo, hi, step = unit[1], unit[2], unit[3]
        bounds = {0, 1, 0x7f, 0x80, 0xff, 0x100, 0x7ff, 0x800, 0xd7ff, 0xe000, 0xfffd, 0xfffe, 0xffff, 0x2028, 0xfeff, 0x22, 0x27, 0x5c, 0x0a, 0x0d}
        for v in range(lo, hi):
            if step > 1 and v % step and v not in bounds:
                continue
            if 0xd800 <= v <= 0xdfff:
                if v % 64 == 0 or v in (0xd800, 0xdbff, 0xdc00, 0xdfff):
                    for q in QUOTES:
                        items.append((wrap('\\u%04x' % v, q), 'reject', 'surrogate \\u escape'))
                continue
            esc = ('\\u%04x' if v % 2 else '\\u%04X') % v
            each_quoting(esc, chr(v), '\\u escape', items, embed=(v % 4 == 0))
        res.exhaustive_done['u-escapes-%04x' % lo] = True
    elif kind == 'U':
        pts = set()
        for p in range(0, 17):
            for d in (-1, 0, 1):
                for base in (p * 0x10000, p * 0x10000 + 0xffff):
                    v = base + d
                    if 0 <= v <= 0x10ffff:
                        pts.add(v)
        pts |= {0x41, 0xe9, 0x1f431, 0x1d11e, 0x10ffff, 0xd7ff, 0xe000}
        for _ in range(3000):
            pts.add(rng.randint(0, 0x10ffff))
        for v in sorted(pts):
            if 0xd800 <= v <= 0xdfff:
                continue
            each_quoting('\\U%08x' % v, chr(v), '\\U escape', items, embed=(v % 3 == 0))
        for v in [0xd800, 0xdbff, 0xdc00, 0xdfff, 0xd900, 0x110000, 0x110001, 0x1fffff, 0x7fffffff, 0x80000000, 0xffffffff, 0x00200000] + \
                 [rng.randint(0x110000, 0xffffffff) for _ in range(300)] + [rng.randint(0xd800, 0xdfff) for _ in range(100)]:
            for q in QUOTES:
                items.append((wrap('\\U%08x' % v, q), 'reject', 'invalid \\U escape'))
        res.exhaustive_done['U-boundaries'] = True
    elif kind == 'raw':
        bodies = ['', 'abc', '\\n', '\\', 'a\\', '\\\\', '\\x41', '\\u0041', '\\U00000041', '\\101', '\\q', '\\"', "\\'", 'a\\"b', "a\\'b",
                  'é', '𝄞', '\t', '\x00', '`', '?', "it''s", 'say ""hi""', '\\a\\b\\f\\r\\t\\v', '\\\\n', 'C:\\dir\\new', '^\\d+\\.\\d*$', ' ', '\\ ']
        for body in bodies:
            for q in QUOTES:
                qc = q[0]
                # the lexer ends a one-line raw literal at the first delimiter character
                if len(q) == 1 and (qc in body or '\n' in body):
                    continue
                if len(q) == 3 and (q in body or body.endswith(qc)):
                    continue
                for p in ('r', 'R'):
                    items.append((wrap(body, q, p), ('ok', S(body)), 'raw string literal', F3 if f3(body, q) else None))
        for q in ("'''", '"""'):
            for body in ("a'b", 'a"b', "a\nb", "'", '"', "''", '""', "a\\'b", 'a\\"b', "\\'''"[:2] + "x",
                         "'a", '"a', "''a", '""a', "'a'b", '"a"b', "' ", '" ', "'\\", "''\nz", "'\u00e9"):
                if q in body or body.endswith(q[0]):
                    continue
                items.append((wrap(body, q, 'r'), ('ok', S(body)), 'raw triple-quoted string literal'))
                items.append((wrap(body, q, 'br'), ('ok', Y(body.encode('utf-8'))), 'raw triple-quoted bytes literal', F3 if f3(body, q) else None))
                if '\\' not in body:
                    items.append((wrap(body, q, 'b'), ('ok', Y(body.encode('utf-8'))), 'triple-quoted bytes literal with verbatim quotes'))
        res.exhaustive_done['raw-forms'] = True
    elif kind == 'bytes':
        prefixes = ['b', 'B']
        for v in range(256):
            for q in QUOTES:
                p = prefixes[v % 2]
                items.append((wrap('\\x%02x' % v, q, p), ('ok', Y(bytes([v]))), 'hex escape in a bytes literal'))
                items.append((wrap('\\X%02X' % v, q, p), ('ok', Y(bytes([v]))), 'hex escape in a bytes literal'))
                items.append((wrap('\\%03o' % v, q, p), ('ok', Y(bytes([v]))), 'octal escape in a bytes literal'))
                items.append((wrap('a\\x%02xb' % v, q, p), ('ok', Y(b'a' + bytes([v]) + b'b')), 'hex escape in a bytes literal'))
        for k, v in SIMPLE.items():
            for q in QUOTES:
                for p in prefixes:
                    items.append((wrap('\\' + k, q, p), ('ok', Y(bytes([v]))), 'single-character escape in a bytes literal'))
        for s in ['', 'abc', 'é', 'ÿ', '日本', '𝄞', 'a b', '\t', '`?$']:
            for q in QUOTES:
                for p in prefixes:
                    items.append((wrap(s, q, p), ('ok', Y(s.encode('utf-8'))), 'literal UTF-8 in a bytes literal'))
        for body in ['', 'abc', '\\n', 'a\\', '\\x41', '\\101', 'é', '𝄞', '\\\\', 'C:\\dir']:
            for q in QUOTES:
                if len(q) == 3 and body.endswith(q[0]):
                    continue
                for p in ('br', 'bR', 'Br', 'BR'):
                    items.append((wrap(body, q, p), ('ok', Y(body.encode('utf-8'))), 'raw bytes literal', F3 if f3(body, q) else None))
        for q, body in (("'''", "a'b"), ('"""', 'a"b'), ("'''", 'a"b'), ("'''", "a\nb"), ('"""', "''"), ("'", '"'), ('"', "'")):
            items.append((wrap(body, q, 'b'), ('ok', Y(body.encode())), 'verbatim quote / newline in a bytes literal'))
        res.exhaustive_done['bytes-forms'] = True
    elif kind == 'invalid':
        for q in QUOTES:
            for esc in ['\\400', '\\777', '\\8', '\\9', '\\1', '\\12', '\\x4', '\\xg0', '\\x', '\\u123', '\\u12g4', '\\U0000004',
                        '\\U0000g041', '\\q', '\\c', '\\ ', '\\N', '\\e', '\\0', '\\08', '\\u{41}']:
                items.append((wrap(esc, q), 'reject', 'malformed escape'))
                items.append((wrap('y' + esc + 'z', q), 'reject', 'malformed escape'))
                items.append((wrap(esc, q, 'b'), 'reject', 'malformed escape in a bytes literal'))
                items.append((wrap('yy' + esc + 'z', q, 'B'), 'reject', 'malformed escape in a bytes literal'))
            for esc in ['\\u0041', '\\U00000041', '\\u00e9', '\\ud800']:
                # code-point escapes have no meaning in a bytes literal
                items.append((wrap(esc, q, 'b'), 'reject', 'code-point escape in a bytes literal'))
                items.append((wrap('ab' + esc, q, 'b'), 'reject', 'code-point escape in a bytes literal'))
                items.append((wrap('\\x41\\101' + esc + 'z', q, 'B'), 'reject', 'code-point escape in a bytes literal'))
        # a rejected literal leaves nothing behind: after every rejected program, well-formed literals of every
        # kind (same driver thread) still denote exactly what they spell
        probes = [("b'xyz'", ('ok', Y(b'xyz'))), ("'xyz'", ('ok', S('xyz'))), ('b"\\x41\\n"', ('ok', Y(b'A\n'))), ("r'\\n'", ('ok', S('\\n'))),
                  ("br'q\\x'", ('ok', Y(b'q\\x'))), ("'''t\\u00e9'''", ('ok', S('t\u00e9'))), ("b''", ('ok', Y(b''))), ("''", ('ok', S(''))),
                  ("[b'k', 'k', b'\\101']", ('ok', ('l', [Y(b'k'), S('k'), Y(b'A')])))]
        mixed = []
        for i, it in enumerate(items):
            mixed.append(it)
            pr = probes[i % len(probes)]
            mixed.append((pr[0], pr[1], 'well-formed literal after a rejected one'))
            if i % 3 == 0:
                pr = probes[(i // 3 + 4) % len(probes)]
                mixed.append((pr[0], pr[1], 'well-formed literal after a rejected one'))
        items = mixed
        res.exhaustive_done['malformed-escapes'] = True
    elif kind == 'pairs':
        # two adjacent escapes: each denotes its own code point; a surrogate stays invalid next to another one
        his = [0xd800, 0xd83d, 0xdbff, 0xda00]
        los = [0xdc00, 0xde00, 0xdfff]
        for q in QUOTES:
            for h in his:
                for l in los:
                    items.append((wrap('\\u%04x\\u%04x' % (h, l), q), 'reject', 'adjacent surrogate escapes'))
                    items.append((wrap('\\u%04X\\u%04X' % (l, h), q), 'reject', 'adjacent surrogate escapes'))
                    items.append((wrap('a\\u%04x\\u%04xb' % (h, l), q), 'reject', 'adjacent surrogate escapes'))
                items.append((wrap('\\u%04xA' % h, q), 'reject', 'surrogate \\u escape'))
                items.append((wrap('\\U%08x\\U%08x' % (h, 0xdc00), q), 'reject', 'adjacent surrogate escapes'))
            for a, b in [(0x41, 0x42), (0xe9, 0x301), (0xffff, 0x10000), (0x1f600, 0x1f600), (0xd7ff, 0xe000), (0x22, 0x27), (0x5c, 0x6e)]:
                ea = ('\\u%04x' % a) if a <= 0xffff else ('\\U%08x' % a)
                eb = ('\\u%04x' % b) if b <= 0xffff else ('\\U%08x' % b)
                items.append((wrap(ea + eb, q), ('ok', S(chr(a) + chr(b))), 'adjacent escapes'))
                items.append((wrap('\\x%02x\\%03o' % (a & 0xff, b & 0xff), q), ('ok', S(chr(a & 0xff) + chr(b & 0xff))), 'adjacent escapes'))
        res.exhaustive_done['adjacent-escapes'] = True
    elif kind == 'multi':
        # several literals in one program (a per-parse cache or shared buffer must not mix them up): the same
        # quoted text as raw, non-raw and bytes literal side by side, in every order
        bodies = ['a\\tb', '\\x41', '\\\\d+', '\\u00e9', '\\101', 'plain', '\\n\\n', 'q\\?']
        import itertools as _it
        from celmodel.values import L as _L
        for body in bodies:
            for q in QUOTES:
                forms = [(wrap(body, q), decode_simple(body)), (wrap(body, q, 'r'), body), (wrap(body, q, 'R'), body)]
                other_q = QUOTES[(QUOTES.index(q) + 1) % 4]
                forms.append((wrap(body, other_q), decode_simple(body)))
                for perm in _it.permutations(forms, 2):
                    src = '[' + ', '.join(f[0] for f in perm) + ']'
                    items.append((src, ('ok', _L([S(f[1]) for f in perm])), 'several literals in one program'))
                    items.append((perm[0][0] + ' + ' + perm[1][0], ('ok', S(perm[0][1] + perm[1][1])), 'several literals in one program'))
                    items.append((perm[0][0] + ' == ' + perm[1][0], ('ok', ('b', perm[0][1] == perm[1][1])), 'several literals in one program'))
                # bytes next to strings of the same text
                bts = [(wrap(body, q, 'b'), decode_simple(body).encode('latin-1') if all(ord(c) < 256 for c in decode_simple(body)) and '\\u' not in body else None),
                       (wrap(body, q, 'br'), body.encode())]
                for bsrc, bval in bts:
                    if bval is None:
                        continue
                    items.append(('[' + wrap(body, q) + ', ' + bsrc + ', ' + wrap(body, q, 'r') + ']',
                                  ('ok', _L([S(decode_simple(body)), Y(bval), S(body)])), 'several literals in one program'))
                    items.append(('[' + bsrc + ', ' + wrap(body, q, 'r') + ', ' + wrap(body, q) + ']',
                                  ('ok', _L([Y(bval), S(body), S(decode_simple(body))])), 'several literals in one program'))
        res.exhaustive_done['several-literals-per-program'] = True
    elif kind == 'f1':
        # the escape of the *other* quote character (known finding family, kept separate and exact)
        for q in QUOTES:
            qc = q[0]
            other = '"' if qc == "'" else "'"
            for body, val in (('\\' + other, other), ('a\\' + other + 'b', 'a' + other + 'b'), ('\\' + other * 1 + '\\' + other, other * 2),
                              ('\\\\\\' + other, '\\' + other)):
                alt = body.replace('\\\\', '\x00').replace('\\' + other, '\\' + other).replace('\x00', '\\')
                # known wrong computation: backslash + quote are both kept
                items.append((wrap(body, q), ('ok', S(val)), 'other-quote escape', F1, {"_f1_alt": alt}))
        res.exhaustive_done['other-quote-escape'] = True
    elif kind == 'f2':
        for q in ("'''", '"""'):
            qc = q[0]
            for body in ('a' + qc + 'b', qc + 'a', 'a' + qc * 2 + 'b', 'x' + qc + 'y' + qc + 'z', 'it' + qc + 's', qc + 'q' + qc + ' said'):
                if body.endswith(qc):
                    continue
                alt = body.replace(qc, '')
                items.append((wrap(body, q), ('ok', S(body)), 'verbatim delimiter-kind quote', F2, {"_f2_alt": alt}))
        res.exhaustive_done['triple-quoted-embedded-quotes'] = True
    else:
        alphabet = ['a', 'b', 'Z', '0', ' ', '\t', '\n', '\r', '\x00', '\x07', '\x1b', '\x7f', '\\', "'", '"', '`', '?', 'é', 'ÿ', 'Ā', '߿',
                    'ࠀ', '日', '本', '￿', '𝄞', '\U0010ffff', '\u2028', '\ufeff', '%', '{', '}']
        for _ in range(700):
            n = rng.choice([0, 1, 2, 3, 5, 8, 13])
            s = ''.join(rng.choice(alphabet) for _ in range(n))
            for q in QUOTES:
                qc = q[0]
                other = '"' if qc == "'" else "'"
                lit = encode_string(rng, s, q)
                items.append((lit, ('ok', S(s)), 'random string, non-raw'))
                if raw_ok(s, q):
                    items.append((wrap(s, q, rng.choice('rR')), ('ok', S(s)), 'random string, raw', F3 if f3(s, q) else None))
            b = bytes(rng.getrandbits(8) for _ in range(rng.choice([0, 1, 2, 4, 8])))
            for q in QUOTES:
                items.append((encode_bytes(rng, b, q, rng.choice('bB')), ('ok', Y(b)), 'random bytes, non-raw'))
            if s and raw_ok(s, "'''"):
                items.append((wrap(s, "'''", 'br'), ('ok', Y(s.encode('utf-8'))), 'random bytes, raw', F3 if f3(s, "'''") else None))
    run_items(res, drv, items, kind)


def recheck(cases, out, res):
    for c, r in zip(cases, out):
        print("observed:", str(r)[:800])
