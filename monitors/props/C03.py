"""C03 — evaluation of the core language agrees with the reference semantics."""
from celmodel.values import to_json, top_outcome, is_crash, canon
from celmodel.refeval import all_outcomes, Unsupported
from celmodel.expr import render_min, render_full, count_ops, node_depth
from celmodel.gen import TypedGen
from .common import (exec_case, rng_for, any_outcome_matches, mismatch_kind, fmt_outcome, crash_sig)

RULE = ("well-typed programs from the typed grammar of the core fragment (depth <= 6) with boundary-biased "
        "literals and variables of a generated context, rendered minimally (a fifth also fully) "
        "parenthesised, executed and compared with the Python reference evaluator (value structurally, "
        "error by class; map-ranged macros under every key order); every multi-operand construct (map / list literals, "
        "calls, binary operators, index, conditional, nested sums, macro bodies) with two operands failing in different "
        "error classes at every pair of positions (the class returned tells which ran first); non-trivial = program with >= 2 "
        "operators/calls; distinct = distinct (source, context)")
ASSUMPTIONS = ["reference evaluator celmodel/refeval.py implements the semantics C03 names; programs that "
               "leave its fragment (Unsupported) are skipped and counted, never judged"]


def units(tier, seed):
    n = 48 if tier == 'quick' else 1920
    return [('typed', i) for i in range(n)] + [('concat', i) for i in range(2 if tier == 'quick' else 64)] + [('crossnum',), ('errorder',)]


def concat_programs(rng):
    """List / string concatenations between context variables (shared buffers), iteration variables and
    freshly built operands of every length combination 0-4."""
    from celmodel.values import I, S, L
    items = []
    for _ in range(120):
        la, lb = rng.randint(0, 4), rng.randint(0, 4)
        if rng.random() < 0.6:
            a = L([I(rng.randint(0, 9)) for _ in range(la)])
            b = L([I(rng.randint(10, 19)) for _ in range(lb)])
            fresh = lambda v: ('list', [('lit', x) for x in v[1]])
            wrap = lambda e: ('macro', 'map', e, 'q', [('id', 'q')])
        else:
            a = S(''.join(rng.choice('abé') for _ in range(la)))
            b = S(''.join(rng.choice('xy𝄞') for _ in range(lb)))
            fresh = lambda v: ('lit', v)
            wrap = lambda e: ('bin', '+', e, ('lit', S('')))
        A, Bv = ('id', 'a'), ('id', 'b')
        forms = [('bin', '+', A, Bv), ('bin', '+', Bv, A), ('bin', '+', A, fresh(b)), ('bin', '+', fresh(a), Bv), ('bin', '+', fresh(a), fresh(b)),
                 ('bin', '+', A, wrap(Bv)), ('bin', '+', wrap(A), Bv), ('bin', '+', ('bin', '+', A, fresh(b)), A), ('bin', '+', A, ('bin', '+', fresh(b), A)),
                 ('bin', '+', A, A), ('bin', '==', ('bin', '+', A, fresh(b)), ('bin', '+', fresh(a), Bv)),
                 ('call', 'size', [('bin', '+', A, fresh(b))])]
        if a[0] == 'l':
            forms += [('macro', 'map', ('list', [A, Bv]), 'r', [('bin', '+', ('id', 'r'), fresh(b))]),
                      ('macro', 'map', ('list', [A]), 'r', [('bin', '+', ('id', 'r'), ('bin', '+', fresh(b), fresh(b)))]),
                      ('idx', ('bin', '+', A, fresh(b)), ('lit', I(0))), ('bin', 'in', ('lit', I(10)), ('bin', '+', A, fresh(b)))]
        for e in forms:
            items.append((e, [("a", a), ("b", b)]))
    return items


def features(e, acc):
    k = e[0]
    if k == 'bin':
        acc.add('op:' + e[1])
    elif k == 'un':
        acc.add('un:' + e[1])
    elif k == 'macro':
        acc.add('macro:' + e[1] + (str(len(e[4])) if e[1] == 'map' else ''))
    elif k in ('call', 'mcall'):
        acc.add('fn:' + (e[1] if k == 'call' else e[2]) + ('.m' if k == 'mcall' else ''))
    elif k in ('cond', 'idx', 'sel', 'has', 'list', 'map'):
        acc.add(k)
    for c in e[1:]:
        if isinstance(c, tuple) and c and isinstance(c[0], str):
            features(c, acc)
        elif isinstance(c, list):
            for x in c:
                if isinstance(x, tuple) and x and isinstance(x[0], str):
                    features(x, acc)
                elif isinstance(x, tuple):
                    for y in x:
                        if isinstance(y, tuple) and y and isinstance(y[0], str):
                            features(y, acc)


def judge(res, case, rec, outs, complete, e, tag="C03"):
    obs = top_outcome(rec)
    res.count("outcome:" + (obs[1] if obs[0] == 'err' else obs[0]))
    if obs[0] == 'compile_err':
        res.violation('rejected', 'well-typed program rendered from the model', 'compile error', case,
                      expected="compiles", observed=str(obs[1])[:300])
        return obs
    if obs[0] == 'inconclusive':
        res.inconclusive.append(str(obs[1])[:200])
        return obs
    exps = [o for o, _ in outs]
    if any_outcome_matches(exps, obs):
        return obs
    if not complete and not is_crash(obs):
        res.count("skipped:map-order-unbounded")
        return obs
    exp = exps[0]
    kind = mismatch_kind(exp, obs)
    feat = set()
    features(e, feat)
    res.violation(kind, "core fragment", crash_sig(obs) if is_crash(obs) else kind, case,
                  expected=[fmt_outcome(x) for x in exps[:3]], observed=fmt_outcome(obs),
                  note="features=" + ",".join(sorted(feat))[:300])
    return obs


def run_unit(unit, drv, res, seed, tier):
    rng = rng_for(seed, 'C03', *unit)
    cases, meta = [], []
    if unit[0] == 'crossnum':
        # numbers of different kinds at the edges of exactness, in every relation and inside small programs
        from celmodel.values import I, U, D, I64_MAX, I64_MIN, U64_MAX
        ints = [I(v) for v in (0, 1, -1, (1 << 53) - 1, 1 << 53, (1 << 53) + 1, -(1 << 53) - 1, I64_MAX, I64_MAX - 1, I64_MIN, I64_MIN + 1)]
        uints = [U(v) for v in (0, 1, (1 << 53) + 1, I64_MAX, I64_MAX + 1, U64_MAX, U64_MAX - 1)]
        dbls = [D(v) for v in (0.0, -0.0, 1.0, 0.5, -1.0, float(1 << 53), float((1 << 53) + 2), 9223372036854775808.0, -9223372036854775808.0,
                               9223372036854774784.0, 18446744073709551616.0, 18446744073709549568.0, 1e300, -1e300)]
        groups = [(ints, dbls), (uints, dbls), (ints, uints)]
        for ga, gb in groups:
            for a in ga:
                for b in gb:
                    for x, y in ((a, b), (b, a)):
                        for rel in ('<', '<=', '>', '>=', '==', '!='):
                            e = ('bin', rel, ('id', 'a'), ('id', 'b'))
                            ctx = [("a", x), ("b", y)]
                            outs, complete = all_outcomes(e, dict(ctx))
                            cases.append(exec_case(len(cases), render_min(e), ctx))
                            meta.append((e, outs, complete, 'min'))
                        for e in (('cond', ('bin', '<', ('id', 'a'), ('id', 'b')), ('id', 'a'), ('id', 'b')),
                                  ('bin', 'in', ('id', 'a'), ('list', [('id', 'b')]))):
                            ctx = [("a", x), ("b", y)]
                            outs, complete = all_outcomes(e, dict(ctx))
                            cases.append(exec_case(len(cases), render_min(e), ctx))
                            meta.append((e, outs, complete, 'min'))
        out = drv.run(cases, "crossnum")
        for c, r, (e, outs, complete, form) in zip(cases, out, meta):
            res.evaluations += 1
            judge(res, c, r, outs, complete, e)
            res.nt(c["src"] + "|" + repr(c.get("vars")))
            res.count("family:crossnum")
        res.exhaustive_done['cross-kind-numeric-relations'] = True
        return
    if unit[0] == 'errorder':
        # "operands evaluated left to right with the first error aborting": every construct with several operand
        # slots, two of them failing with errors of *different* classes (division by zero, overflow, missing key,
        # undeclared name), in every pair of positions - the class that comes back tells which operand ran first
        import itertools
        from celmodel.values import I, S
        li = lambda k: ('lit', I(k))
        fails = [('bin', '/', li(1), li(0)), ('bin', '+', li(9223372036854775807), li(1)),
                 ('sel', ('map', [(('lit', S('k')), li(1))]), 'zz'), ('id', 'nosuch'), ('bin', '%', li(5), li(0)),
                 ('bin', '*', li(-9223372036854775807), li(3))]
        ok_int = [li(1), li(2), li(3), li(4), li(5), li(6)]

        def builders():
            B = []
            for n in (2, 3):
                B.append(('map-literal', 2 * n, lambda xs: ('map', [(xs[2 * i], xs[2 * i + 1]) for i in range(len(xs) // 2)])))
                B.append(('list-literal', n, lambda xs: ('list', list(xs))))
                B.append(('call-max', n, lambda xs: ('call', 'max', list(xs))))
                B.append(('list-of-lists', n, lambda xs: ('list', [('list', [x]) for x in xs])))
            for op in ('+', '-', '*', '/', '%', '==', '<', 'in'):
                if op == 'in':
                    B.append(('bin:in', 2, lambda xs: ('bin', 'in', xs[0], ('list', [xs[1]]))))
                else:
                    B.append(('bin:' + op, 2, (lambda op: lambda xs: ('bin', op, xs[0], xs[1]))(op)))
            B.append(('index', 2, lambda xs: ('idx', ('list', [xs[0]]), xs[1])))
            B.append(('map-index', 2, lambda xs: ('idx', ('map', [(li(1), xs[0])]), xs[1])))
            B.append(('cond', 2, lambda xs: ('cond', ('bin', '==', xs[0], li(1)), xs[1], li(0))))
            B.append(('nested-sum', 3, lambda xs: ('bin', '+', ('bin', '+', xs[0], xs[1]), xs[2])))
            B.append(('nested-right', 3, lambda xs: ('bin', '+', xs[0], ('bin', '*', xs[1], xs[2]))))
            B.append(('map-in-list', 4, lambda xs: ('list', [('map', [(xs[0], xs[1])]), ('map', [(xs[2], xs[3])])])))
            B.append(('macro-body', 2, lambda xs: ('macro', 'map', ('list', [li(1)]), 'q', [('list', [xs[0], xs[1]])])))
            B.append(('size-of-map', 4, lambda xs: ('call', 'size', [('map', [(xs[0], xs[1]), (xs[2], xs[3])])])))
            return B
        for fam, nslots, build in builders():
            for i, j in itertools.combinations(range(nslots), 2):
                for fa, fb in itertools.permutations(range(len(fails)), 2):
                    if (fa + fb + i + j) % 3 and nslots > 3:
                        continue
                    xs = list(ok_int[:nslots])
                    xs[i], xs[j] = fails[fa], fails[fb]
                    e = build(xs)
                    try:
                        outs, complete = all_outcomes(e, {})
                    except Unsupported:
                        res.count("skipped:unsupported")
                        continue
                    cases.append(exec_case(len(cases), render_min(e)))
                    meta.append((e, outs, complete, fam))
        out = drv.run(cases, "errorder")
        for c, r, (e, outs, complete, fam) in zip(cases, out, meta):
            res.evaluations += 1
            judge(res, c, r, outs, complete, e)
            res.nt(c["src"])
            res.count("family:errorder:" + fam)
        res.exhaustive_done['two-failing-operands-x-constructs'] = True
        return
    if unit[0] == 'concat':
        for e, ctx in concat_programs(rng):
            outs, complete = all_outcomes(e, dict(ctx))
            cases.append(exec_case(len(cases), render_min(e), ctx))
            meta.append((e, outs, complete, 'min'))
        out = drv.run(cases, "concat")
        for c, r, (e, outs, complete, form) in zip(cases, out, meta):
            res.evaluations += 1
            judge(res, c, r, outs, complete, e)
            res.nt(c["src"] + "|" + repr(c.get("vars")))
            res.count("family:concat")
        return
    n = 1500
    tries = 0
    while len(cases) < n and tries < n * 4:
        tries += 1
        g = TypedGen(rng, max_depth=rng.choice([2, 3, 4, 5, 6]))
        ctx = g.make_context(rng.randint(2, 6))
        e = g.program()
        try:
            outs, complete = all_outcomes(e, dict(ctx))
        except Unsupported as u:
            res.count("skipped:unsupported")
            res.see("unsupported_reasons", str(u)[:60])
            continue
        except RecursionError:
            continue
        try:
            src = render_min(e, rng, 0.05)
        except ValueError:
            res.count("skipped:no-literal-form")
            continue
        cases.append(exec_case(len(cases), src, ctx))
        meta.append((e, outs, complete, 'min'))
        if rng.random() < 0.2:
            cases.append(exec_case(len(cases), render_full(e), ctx))
            meta.append((e, outs, complete, 'full'))
    out = drv.run(cases, "typed")
    for c, r, (e, outs, complete, form) in zip(cases, out, meta):
        res.evaluations += 1
        judge(res, c, r, outs, complete, e)
        if count_ops(e) >= 2:
            res.nt(c["src"] + "|" + repr(c.get("vars")))
        feat = set()
        features(e, feat)
        for f in feat:
            res.see("constructs", f)
        res.count("depth:%d" % min(node_depth(e), 9))
        if form == 'min' and count_ops(e) >= 3:
            res.sample({"src": c["src"], "vars": c.get("vars"), "expected": fmt_outcome(outs[0][0])}, cap=3)


def recheck(cases, out, res):
    for c, r in zip(cases, out):
        obs = top_outcome(r)
        print("observed outcome:", fmt_outcome(obs) if not is_crash(obs) else obs)
        if is_crash(obs):
            res.violation(obs[0], 'replay', crash_sig(obs), c)
