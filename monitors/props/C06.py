"""C06 — logical operators and the conditional evaluate only what they need."""
from celmodel.values import I, B, S, top_outcome, is_crash
from celmodel.refeval import run_once, Unsupported
from celmodel.expr import render_min, render_full
from .common import (exec_case, rng_for, same_outcome, mismatch_kind, fmt_outcome, crash_sig, chunks, norm_log)

RULE = ("nestings of &&, || and ?: whose operands are boolean constants, call-logging host functions "
        "t(i, bool) and error raisers (division by zero, overflow, missing key, undeclared name, failing "
        "logged host function): exhaustive to depth 2 over the operand classes {true, false, error} (all "
        "three operators) and to depth 3 for &&/|| (thorough), every concrete operand form at depth 1, "
        "random nestings to depth 6, and the same expressions as macro bodies; observed: outcome and the "
        "ordered host-call log, compared with the reference evaluator with skip tracking; non-trivial = "
        "the reference skipped an operand that is not a plain constant; distinct = distinct source")
ASSUMPTIONS = ["an error in an *evaluated* operand aborts (this implementation's documented semantics), "
               "so `fail() || true` is expected to be an error"]

ERR_FORMS = ['div', 'ovf', 'key', 'undecl', 'fail', 'undeclfn', 'undeclmethod']


class Builder:
    def __init__(self, rng):
        self.rng = rng
        self.n = 0

    def tag(self):
        self.n += 1
        return ('lit', I(self.n))

    def leaf(self, sym, form=None):
        rng = self.rng
        if sym in ('T', 'F'):
            val = ('lit', B(sym == 'T'))
            if form == 'const' or (form is None and rng.random() < 0.25):
                return val
            return ('call', 't', [self.tag(), val])
        f = form or rng.choice(ERR_FORMS)
        if f == 'div':
            return ('bin', '==', ('bin', '/', ('lit', I(1)), ('lit', I(0))), ('lit', I(0)))
        if f == 'ovf':
            return ('bin', '==', ('bin', '+', ('lit', I(9223372036854775807)), ('lit', I(1))), ('lit', I(0)))
        if f == 'key':
            return ('sel', ('map', []), 'k')
        if f == 'undecl':
            return ('id', 'nosuchvar')
        if f == 'undeclfn':
            return ('call', 'nosuchfn', [self.tag()])
        if f == 'undeclmethod':
            return ('mcall', ('lit', B(True)), 'nosuchmethod', [])
        return ('call', 'fail', [self.tag()])


def shapes(depth, ops):
    """All operator trees of at most `depth` nested operators; leaves are None."""
    if depth == 0:
        return [None]
    sub = shapes(depth - 1, ops)
    out = [None]
    for op in ops:
        if op == '?:':
            for a in sub:
                for b in sub:
                    for c in sub:
                        out.append(('?:', a, b, c))
        else:
            for a in sub:
                for b in sub:
                    out.append((op, a, b))
    return out


def count_leaves(sh):
    if sh is None:
        return 1
    return sum(count_leaves(c) for c in sh[1:])


def assignments(n, syms='TFE'):
    if n == 0:
        yield ()
        return
    for rest in assignments(n - 1, syms):
        for s in syms:
            yield rest + (s,)


def build(sh, leaves, b, forms=None):
    it = iter(leaves)
    fit = iter(forms) if forms else None

    def go(s):
        if s is None:
            return b.leaf(next(it), next(fit) if fit else None)
        if s[0] == '?:':
            return ('cond', go(s[1]), go(s[2]), go(s[3]))
        return ('bin', s[0], go(s[1]), go(s[2]))
    return go(sh)


def units(tier, seed):
    us = [('forms1',)]
    # exhaustive depth 2, all three operators, split by top-level shape index
    n2 = len(shapes(2, ['&&', '||', '?:']))
    for i in range(0, n2, 4):
        us.append(('ex2', i, min(n2, i + 4)))
    if tier == 'thorough':
        n3 = len(shapes(3, ['&&', '||']))
        step = max(1, n3 // 96)
        for i in range(0, n3, step):
            us.append(('ex3', i, min(n3, i + step)))
    for i in range(16 if tier == 'quick' else 480):
        us.append(('random', i))
    for i in range(8 if tier == 'quick' else 160):
        us.append(('macro', i))
    return us


def judge(res, case, rec, e, variables=None):
    res.evaluations += 1
    try:
        exp, ev = run_once(e, variables or {})
    except Unsupported as u:
        res.count("skipped:unsupported")
        return
    obs = top_outcome(rec)
    res.count("outcome:" + (obs[1] if obs[0] == 'err' else obs[0]))
    if getattr(ev, 'skipped_interesting', 0) > 0:
        res.nt(case["src"])
        res.count("skipped_operands_observed", ev.skipped_interesting)
    if obs[0] == 'inconclusive':
        res.inconclusive.append(str(obs[1])[:200])
        return
    if obs[0] == 'compile_err':
        res.violation('rejected', 'logic nesting', 'compile error', case, observed=str(obs[1])[:300])
        return
    log = rec.get("log") if isinstance(rec, dict) else None
    if not same_outcome(exp, obs):
        res.violation(mismatch_kind(exp, obs), 'outcome of a logic nesting',
                      crash_sig(obs) if is_crash(obs) else 'outcome differs', case,
                      expected=fmt_outcome(exp), observed=fmt_outcome(obs))
        return
    if log != ev.log:
        extra = [x for x in (log or []) if x not in ev.log]
        kind = 'skipped-operand-evaluated' if extra else 'log-mismatch'
        res.violation('log-mismatch', 'host calls of a logic nesting', kind, case,
                      expected=ev.log, observed=log)
    res.count("host_calls_logged", len(log or []))


def run_cases(res, drv, items, tag):
    for part in chunks(items, 4000):
        cases = [exec_case(i, src, None) for i, (src, e) in enumerate(part)]
        out = drv.run(cases, tag)
        for c, r, (src, e) in zip(cases, out, part):
            judge(res, c, r, e)
        if part:
            res.sample({"src": part[len(part) // 3][0]}, cap=2)


def run_unit(unit, drv, res, seed, tier):
    kind = unit[0]
    rng = rng_for(seed, 'C06', *unit)
    b = Builder(rng)
    items = []
    if kind == 'forms1':
        # every concrete operand form in every position of a single operator
        forms = [('T', 'const'), ('F', 'const'), ('T', 'log'), ('F', 'log')] + [('E', f) for f in ERR_FORMS]
        for op in ('&&', '||'):
            for s1, f1 in forms:
                for s2, f2 in forms:
                    e = ('bin', op, b.leaf(s1, f1), b.leaf(s2, f2))
                    items.append((render_min(e), e))
        for s1, f1 in forms:
            for s2, f2 in forms:
                for s3, f3 in forms:
                    e = ('cond', b.leaf(s1, f1), b.leaf(s2, f2), b.leaf(s3, f3))
                    items.append((render_min(e), e))
        run_cases(res, drv, items, 'forms1')
        res.exhaustive_done['forms-depth1'] = True
    elif kind in ('ex2', 'ex3'):
        depth = 2 if kind == 'ex2' else 3
        ops = ['&&', '||', '?:'] if kind == 'ex2' else ['&&', '||']
        shs = shapes(depth, ops)[unit[1]:unit[2]]
        for sh in shs:
            n = count_leaves(sh)
            for asg in assignments(n):
                e = build(sh, asg, b)
                items.append((render_min(e), e))
                if len(items) >= 20000:
                    run_cases(res, drv, items, kind)
                    items = []
        run_cases(res, drv, items, kind)
        res.exhaustive_done['depth%d' % depth] = True
    elif kind == 'random':
        def rnd(d):
            if d == 0 or rng.random() < 0.2:
                return b.leaf(rng.choice('TTFFE'))
            m = rng.random()
            if m < 0.35:
                return ('bin', '&&', rnd(d - 1), rnd(d - 1))
            if m < 0.7:
                return ('bin', '||', rnd(d - 1), rnd(d - 1))
            if m < 0.92:
                return ('cond', rnd(d - 1), rnd(d - 1), rnd(d - 1))
            return ('un', '!', rnd(d - 1))
        for _ in range(3000):
            e = rnd(rng.choice([3, 4, 4, 5, 6]))
            items.append((render_min(e, rng, 0.05) if rng.random() < 0.8 else render_full(e), e))
        run_cases(res, drv, items, 'random')
    elif kind == 'macro':
        def rnd(d):
            if d == 0 or rng.random() < 0.25:
                return b.leaf(rng.choice('TTFFE'))
            m = rng.random()
            if m < 0.4:
                return ('bin', '&&', rnd(d - 1), rnd(d - 1))
            if m < 0.8:
                return ('bin', '||', rnd(d - 1), rnd(d - 1))
            return ('cond', rnd(d - 1), rnd(d - 1), rnd(d - 1))
        for _ in range(2500):
            inner = rnd(rng.choice([1, 2, 3]))
            rngl = ('list', [('lit', I(i)) for i in range(rng.randint(1, 3))])
            w = rng.random()
            xpos = ('bin', '>=', ('id', 'x'), ('lit', I(rng.randint(0, 2))))
            if w < 0.2:
                e = ('macro', 'all', rngl, 'x', [inner])
            elif w < 0.4:
                e = ('macro', 'exists', rngl, 'x', [inner])
            elif w < 0.55:
                e = ('macro', 'map', rngl, 'x', [inner])
            elif w < 0.7:
                e = ('macro', 'filter', rngl, 'x', [inner])
            elif w < 0.85:
                e = ('macro', 'map', rngl, 'x', [('cond', xpos, inner, rnd(1))])
            else:
                e = ('macro', 'map', rngl, 'x', [('bin', '&&', xpos, inner), ('bin', '||', xpos, rnd(1))])
            items.append((render_min(e), e))
        run_cases(res, drv, items, 'macro')


def recheck(cases, out, res):
    for c, r in zip(cases, out):
        obs = top_outcome(r)
        print("observed:", fmt_outcome(obs) if not is_crash(obs) else obs, "log:", r.get("log"))
        if is_crash(obs):
            res.violation(obs[0], 'replay', crash_sig(obs), c)
