"""C14 — list, map and string operations agree with one another."""
import itertools

from celmodel.values import (I, U, D, S, Y, B, L, M, NULL, to_json, top_outcome, is_crash, canon, struct_eq, cel_eq,
                             I64_MIN, I64_MAX, U64_MAX)
from celmodel.refeval import map_get
from celmodel.expr import render_literal, render_min
from celmodel.gen import rnd_string, rnd_value, rnd_int
from .common import exec_case, rng_for, crash_sig, chunks, fmt_outcome, same_outcome

RULE = ("all maps with <= 4 distinct keys over a 12-key alphabet mixing int, uint, bool, identifier-like and other "
        "string keys (no int/uint twins inside one map) and non-null values, given as literals and as context "
        "variables, queried with every alphabet key and the int/uint twin (and the wrap-around alias) of every "
        "numeric key through `k in m`, m.contains(k), m[k], m.k and has(m.k); all lists of length <= 5 with every "
        "index in -2..len+1 and the i64 extremes, membership asked of list variables, list literals and literals of variables; size() of strings with one multi-byte character at every byte offset 0-40 and every two-way split of them; random strings / lists for size(a+b) == size(a)+size(b), order "
        "preservation of +, operands re-read unchanged, and `x in l` iff some element equals x; oracle: a Python "
        "dict keyed by numeric value; non-trivial = map with >= 2 keys or a twin query, index outside 0..len; "
        "distinct = distinct (source, context)")
ASSUMPTIONS = ["queries with key kinds outside the alphabet (double, null, bytes) are not judged"]

KEYS = [I(0), I(1), I(-1), I(I64_MAX), U(2), U(3), U(U64_MAX), U(1 << 63), B(True), S("a"), S("x y"), S("1")]
QUERIES = KEYS + [U(0), U(1), U(I64_MAX), I(2), I(3), I(I64_MIN), I(-2), U(5), I(5), S("b"), B(False), S(""),
                  S("size"), S("contains"), S("string"), S("t"), S("getHours")]
FUNCTION_NAMES = {"size", "contains", "string", "t", "getHours"}


def twin_conflict(ks):
    nums = [k[1] for k in ks if k[0] in ('i', 'u')]
    return len(nums) != len(set(nums))


def units(tier, seed):
    us = []
    for n in range(0, 5):
        combos = [c for c in itertools.combinations(range(len(KEYS)), n) if not twin_conflict([KEYS[i] for i in c])]
        step = 40
        for i in range(0, len(combos), step):
            us.append(('maps', n, i, min(len(combos), i + step)))
    us.append(('lists',))
    us.append(('strsizes',))
    us.append(('dups',))
    for i in range(12 if tier == 'quick' else 640):
        us.append(('additive', i))
    return us


def value_for(i):
    return [I(10), S("v"), L([I(1)]), B(False), D(1.5), U(7), M([(S("n"), I(1))]), Y(b"z"), I(-3), S(""), L([]), I(0)][i]


def is_ident(s):
    return s.isidentifier() and s.isascii() and s not in ('in', 'true', 'false', 'null')


def judge(res, c, r, exp, feature, nt):
    res.evaluations += 1
    if nt:
        res.nt(c["src"] + str(c.get("vars")))
    o = top_outcome(r)
    if is_crash(o):
        res.violation(o[0], feature, crash_sig(o), c, observed=list(o))
        return
    if o[0] in ('inconclusive', 'compile_err'):
        if o[0] == 'compile_err':
            res.violation('rejected', feature, 'compile error', c, observed=str(o[1])[:200])
        else:
            res.inconclusive.append(str(o[1])[:100])
        return
    if not same_outcome(exp, o):
        res.violation('wrong-value' if o[0] == 'ok' and exp[0] == 'ok' else 'wrong-outcome', feature,
                      'differs from the dictionary model', c, expected=fmt_outcome(exp), observed=fmt_outcome(o))


def run_unit(unit, drv, res, seed, tier):
    kind = unit[0]
    if kind == 'maps':
        n = unit[1]
        combos = [c for c in itertools.combinations(range(len(KEYS)), n) if not twin_conflict([KEYS[i] for i in c])]
        items = []
        for combo in combos[unit[2]:unit[3]]:
            entries = [(KEYS[i], value_for(i)) for i in combo]
            m = M(entries)
            mlit = '{' + ', '.join(render_literal(k) + ': ' + render_min(lit_expr(v)) for k, v in entries) + '}'
            for form in ('var', 'lit'):
                ms = 'm' if form == 'var' else mlit
                vs = [("m", m)] if form == 'var' else []
                # exactly the entries written
                items.append((exec_case(0, ms, vs), ('ok', m), 'map literal / variable denotes its entries', n >= 2))
                items.append((exec_case(0, "size(%s)" % ms, vs), ('ok', I(n)), 'size of a map', n >= 2))
                for q in QUERIES:
                    if form == 'lit' and (hash((combo, canon(q))) % 3):
                        continue
                    found = map_get(m, q)
                    twin = q not in [k for k, _ in entries]
                    nt = n >= 2 or twin
                    ql = render_literal(q)
                    p = ('ok', B(found is not None))
                    items.append((exec_case(0, "%s in %s" % (ql, ms), vs), p, '`in` on a map', nt))
                    items.append((exec_case(0, "%s.contains(%s)" % (ms, ql), vs), p, 'contains() on a map', nt))
                    items.append((exec_case(0, "%s[%s]" % (ms, ql), vs), ('ok', found if found is not None else NULL), 'map index', nt))
                    # the same key through a variable
                    items.append((exec_case(0, "k in %s" % ms, vs + [("k", q)]), p, '`in` on a map', nt))
                    items.append((exec_case(0, "%s[k]" % ms, vs + [("k", q)]), ('ok', found if found is not None else NULL), 'map index', nt))
                    if q[0] == 's' and is_ident(q[1]):
                        # an absent field that is spelled like a function selects a bound-method value in this
                        # implementation (a vestige of the old call syntax): not judged; has() still is
                        if not (found is None and q[1] in FUNCTION_NAMES):
                            items.append((exec_case(0, "%s.%s" % (ms, q[1]), vs),
                                          ('ok', found) if found is not None else ('err', '*'), 'field selection', nt))
                        items.append((exec_case(0, "has(%s.%s)" % (ms, q[1]), vs), p, 'has()', nt))
        for part in chunks(items, 6000):
            cases = []
            for i, (c, exp, feat, nt) in enumerate(part):
                c = dict(c)
                c["id"] = i
                cases.append(c)
            out = drv.run(cases, 'maps')
            for c, r, (_, exp, feat, nt) in zip(cases, out, part):
                judge(res, c, r, exp, feat, nt)
                res.count("query:" + feat)
        res.exhaustive_done['maps-%d-keys' % n] = True
        if items:
            res.sample({"src": items[len(items) // 2][0]["src"], "vars": items[len(items) // 2][0].get("vars")}, cap=1)
    elif kind == 'lists':
        items = []
        elems = [I(7), S("s"), D(2.5), L([I(1)]), U(3)]
        for n in range(0, 6):
            xs = elems[:n]
            l = L(xs)
            llit = '[' + ', '.join(render_min(lit_expr(v)) for v in xs) + ']'
            for i in list(range(-2, n + 2)) + [I64_MIN, I64_MAX, -(1 << 32), 1 << 32, 1 << 63 - 1]:
                exp = ('ok', xs[i] if 0 <= i < n else NULL)
                nt = not (0 <= i < n)
                items.append((exec_case(0, "l[%d]" % i, [("l", l)]), exp, 'list index', nt))
                items.append((exec_case(0, "l[i]", [("l", l), ("i", I(i))]), exp, 'list index', nt))
                items.append((exec_case(0, "%s[%d]" % (llit, i)), exp, 'list index', nt))
            items.append((exec_case(0, "size(l)", [("l", l)]), ('ok', I(n)), 'size of a list', True))
            for x in elems + [I(8), D(7.0), U(7), NULL, L([U(1)]), L([I(2)])]:
                exp = ('ok', B(any(cel_eq(x, e) for e in xs)))
                items.append((exec_case(0, "x in l", [("l", l), ("x", x)]), exp, '`in` on a list', True))
                items.append((exec_case(0, "l.contains(x)", [("l", l), ("x", x)]), exp, 'contains() on a list', True))
                # the same question with the list and / or the needle written as literals, and with the elements
                # given as variables inside a list literal
                try:
                    xlit = render_min(lit_expr(x))
                except ValueError:
                    xlit = None
                items.append((exec_case(0, "x in %s" % llit, [("x", x)]), exp, '`in` on a list literal', True))
                items.append((exec_case(0, "%s.contains(x)" % llit, [("x", x)]), exp, 'contains() on a list literal', True))
                if xlit is not None:
                    items.append((exec_case(0, "%s in %s" % (xlit, llit)), exp, '`in` on a list literal', True))
                    items.append((exec_case(0, "%s in l" % xlit, [("l", l)]), exp, '`in` on a list', True))
                    items.append((exec_case(0, "%s in %s" % (xlit, '[' + ', '.join('e%d' % k for k in range(n)) + ']'),
                                            [("e%d" % k, v) for k, v in enumerate(xs)]), exp, '`in` on a list literal', True))
        cases = []
        for i, (c, exp, feat, nt) in enumerate(items):
            c = dict(c)
            c["id"] = i
            cases.append(c)
        out = drv.run(cases, 'lists')
        for c, r, (_, exp, feat, nt) in zip(cases, out, items):
            judge(res, c, r, exp, feat, nt)
        res.exhaustive_done['lists-len-le-5'] = True
    elif kind == 'strsizes':
        # size() counts code points whatever the byte layout: one multi-byte character at every byte offset
        # 0..40 (any word-at-a-time or chunked counter meets every alignment), runs of multi-byte characters, and
        # every way of splitting such a string in two (additivity)
        items = []
        texts = []
        for ch in ('é', '日', '𝄞', '\u0301'):
            for k in range(0, 41):
                for j in (0, 1, 9):
                    texts.append('a' * k + ch + 'b' * j)
            for n in range(1, 24):
                texts.append(ch * n)
                texts.append('x' + ch * n + 'é')
        for ti, t in enumerate(texts):
            a = S(t)
            n = len(t)
            items.append((exec_case(0, "size(a)", [("a", a)]), ('ok', I(n)), 'size of a string', True))
            items.append((exec_case(0, "a.size()", [("a", a)]), ('ok', I(n)), 'size of a string', True))
            items.append((exec_case(0, "size(%s)" % render_literal(a)), ('ok', I(n)), 'size of a string', True))
            for i in range(0, n + 1, 1 if n <= 12 or ti % 5 == 0 else 7):
                vs = [("a", S(t[:i])), ("b", S(t[i:]))]
                items.append((exec_case(0, "size(a + b) == size(a) + size(b)", vs), ('ok', B(True)), 'size is additive over +', True))
                items.append((exec_case(0, "size(a + b)", vs), ('ok', I(n)), 'size is additive over +', True))
        cases = []
        for i, (c, exp, feat, nt) in enumerate(items):
            c = dict(c)
            c["id"] = i
            cases.append(c)
        out = drv.run(cases, 'strsizes')
        for c, r, (_, exp, feat, nt) in zip(cases, out, items):
            judge(res, c, r, exp, feat, nt)
        res.exhaustive_done['string-sizes-every-byte-offset-0-40'] = True
    elif kind == 'dups':
        # a literal with pairwise distinct keys contains exactly the entries written, in any write order
        items = []
        ks = [I(1), U(2), B(True), S("a"), S("b")]
        for perm in itertools.permutations(range(5), 3):
            entries = [(ks[i], value_for(i)) for i in perm]
            src = '{' + ', '.join(render_literal(k) + ': ' + render_min(lit_expr(v)) for k, v in entries) + '}'
            items.append((exec_case(0, src), ('ok', M(entries)), 'map literal / variable denotes its entries', True))
            items.append((exec_case(0, "size(%s)" % src), ('ok', I(3)), 'size of a map', True))
        cases = []
        for i, (c, exp, feat, nt) in enumerate(items):
            c = dict(c)
            c["id"] = i
            cases.append(c)
        out = drv.run(cases, 'dups')
        for c, r, (_, exp, feat, nt) in zip(cases, out, items):
            judge(res, c, r, exp, feat, nt)
        res.exhaustive_done['map-literal-write-orders'] = True
        # keys spelled like functions, present and absent; digit-spelling strings next to the numbers
        items = []
        for present in (["size"], ["contains", "a"], [], ["string", "size", "t"]):
            m = M([(S(k), I(i + 1)) for i, k in enumerate(present)])
            for q in ("size", "contains", "string", "t", "a", "getHours"):
                found = map_get(m, S(q))
                p = ('ok', B(found is not None))
                vs = [("m", m)]
                items.append((exec_case(0, "has(m.%s)" % q, vs), p, 'has()', True))
                items.append((exec_case(0, "'%s' in m" % q, vs), p, '`in` on a map', True))
                items.append((exec_case(0, "m.contains('%s')" % q, vs), p, 'contains() on a map', True))
                items.append((exec_case(0, "m['%s']" % q, vs), ('ok', found if found is not None else NULL), 'map index', True))
                if found is not None:
                    items.append((exec_case(0, "m.%s" % q, vs), ('ok', found), 'field selection', True))
        import itertools as _it
        digit_keys = [S("7"), I(7), S("0"), U(0), S("-1"), I(-1), B(True), S("true")]
        for a, b in _it.permutations(digit_keys, 2):
            if a[0] in ('i', 'u') and b[0] in ('i', 'u'):
                continue
            src = "{%s: 'first', %s: 'second'}" % (render_literal(a), render_literal(b))
            mm = M([(a, S('first')), (b, S('second'))])
            items.append((exec_case(0, src), ('ok', mm), 'map literal / variable denotes its entries', True))
            items.append((exec_case(0, "size(%s)" % src), ('ok', I(2)), 'size of a map', True))
            items.append((exec_case(0, "%s[%s]" % (src, render_literal(a))), ('ok', S('first')), 'map index', True))
            items.append((exec_case(0, "%s in %s" % (render_literal(a), src)), ('ok', B(True)), '`in` on a map', True))
        cases = []
        for i, (c, exp, feat, nt) in enumerate(items):
            c = dict(c)
            c["id"] = i
            cases.append(c)
        out = drv.run(cases, 'fnkeys')
        for c, r, (_, exp, feat, nt) in zip(cases, out, items):
            judge(res, c, r, exp, feat, nt)
        res.exhaustive_done['function-named-and-digit-keys'] = True
    else:
        rng = rng_for(seed, 'C14', unit[1])
        items = []
        for _ in range(400):
            if rng.random() < 0.5:
                a = S(rnd_string(rng, 8))
                b = S(rnd_string(rng, 8))
                lit_b = render_literal(b)
                cat = S(a[1] + b[1])
                sz = lambda v: I(len(v[1]))
            else:
                a = L([rnd_value(rng, 1, hostile=False) for _ in range(rng.randint(0, 5))])
                b = L([rnd_value(rng, 1, hostile=False) for _ in range(rng.randint(0, 6))])
                try:
                    lit_b = render_min(lit_expr(b))
                except ValueError:
                    lit_b = None
                cat = L(a[1] + b[1])
                sz = lambda v: I(len(v[1]))
            vs = [("a", a), ("b", b)]
            forms = [("a + b", cat), ("b + a", (a[0], b[1] + a[1])), ("a + a", (a[0], a[1] + a[1])),
                     ("(a + b) + a", (a[0], a[1] + b[1] + a[1])), ("a + (b + a)", (a[0], a[1] + b[1] + a[1]))]
            if lit_b is not None:
                forms += [("a + %s" % lit_b, cat), ("%s + a" % lit_b, (a[0], b[1] + a[1]))]
            if a[0] == 'l':
                forms += [("a + b.map(x, x)", cat), ("a.map(x, x) + b", cat), ("a.filter(x, true) + b.filter(x, true)", cat),
                          ("[a, a].map(y, y + b)[1]", cat), ("(a + b)[%d]" % len(a[1]), b[1][0] if b[1] else NULL)]
            for src, exp in forms:
                items.append((exec_case(0, src, vs, reread=True), ('ok', exp), 'concatenation', True, vs))
                items.append((exec_case(0, "size(%s) == size(a) + size(b)" % src.split(')[')[0] if src in ("a + b", "b + a") else "size(a + b)", vs),
                              ('ok', B(True)) if src in ("a + b", "b + a") else ('ok', sz(cat)), 'size is additive over +', True, None))
        cases = []
        for i, it in enumerate(items):
            c = dict(it[0])
            c["id"] = i
            cases.append(c)
        out = drv.run(cases, 'additive')
        for c, r, it in zip(cases, out, items):
            judge(res, c, r, it[1], it[2], it[3])
            if it[4] is not None and isinstance(r, dict) and 'after' in r:
                # operands intact afterwards
                for (name, v), (n2, got) in zip(it[4], r['after']):
                    if not ('ok' in got and struct_eq(v, __import__('celmodel.values', fromlist=['from_json']).from_json(got['ok']))):
                        res.violation('operand-changed', 'concatenation', 'operand differs after the operation', c,
                                      expected=to_json(v), observed=got)
        res.sample({"src": cases[3]["src"], "vars": cases[3].get("vars")}, cap=1)


def lit_expr(v):
    """A literal expression denoting value v (lists / maps as literals of literals)."""
    if v[0] == 'l':
        return ('list', [lit_expr(x) for x in v[1]])
    if v[0] == 'm':
        return ('map', [(('lit', k), lit_expr(x)) for k, x in v[1]])
    if v[0] == 'd' and (v[1] != v[1] or v[1] in (float('inf'), float('-inf'))):
        raise ValueError("no literal")
    return ('lit', v)


def recheck(cases, out, res):
    for c, r in zip(cases, out):
        print("observed:", str(r)[:800])
