"""Supervisor: builds the driver from /repo's working tree, shards work units over processes,
runs the driver under watchdogs, merges monitor verdicts, applies known findings, writes evidence.

Verdicts are three-valued: exit 0 = held on everything explored, 1 = violation(s), 2 = inconclusive.
"""
import hashlib
import json
import os
import random
import shutil
import subprocess
import sys
import time
import traceback
from concurrent.futures import ProcessPoolExecutor, as_completed

VERIF = os.path.dirname(os.path.dirname(os.path.abspath(__file__)))
HARNESS = os.path.join(VERIF, "harness")
WORK = os.path.join(VERIF, "work")
TARGET = os.path.join(WORK, "target")
EVIDENCE = os.environ.get("VERIF_EVIDENCE_DIR") or os.path.join(VERIF, "evidence")
KNOWN = os.path.join(VERIF, "known_findings.json")
NPROC = int(os.environ.get("VERIF_JOBS", "16"))

CASE_WATCHDOG_S = 30.0      # no progress on one case for this long -> kill, re-run alone
ISOLATED_BUDGET_S = 120.0   # budget of the isolated re-run; only a reproducible timeout is a hang


class Inconclusive(Exception):
    pass


def h64(s):
    if not isinstance(s, (bytes, bytearray)):
        s = s.encode("utf-8", "surrogatepass")
    return int.from_bytes(hashlib.blake2b(s, digest_size=8).digest(), "big")


def cargo_env():
    env = dict(os.environ)
    env["CARGO_NET_OFFLINE"] = "true"
    env.setdefault("CARGO_TERM_COLOR", "never")
    return env


def _alt_repo():
    """Testing aid (seed matrix): VERIF_REPO=<dir> points the driver at a scratch copy of the
    repository instead of /repo, through a private copy of the harness and its own target dir.
    The registered checks never set it."""
    global HARNESS, TARGET
    alt = os.environ.get("VERIF_REPO")
    if not alt or alt == "/repo":
        return
    tag = "alt-" + hashlib.blake2b(alt.encode(), digest_size=4).hexdigest()
    h2 = os.path.join(WORK, tag, "harness")
    if HARNESS == h2:
        return
    shutil.rmtree(h2, ignore_errors=True)
    shutil.copytree(os.path.join(VERIF, "harness"), h2, ignore=shutil.ignore_patterns("target"))
    for root, _, files in os.walk(h2):
        for f in files:
            if f == "Cargo.toml":
                pth = os.path.join(root, f)
                txt = open(pth).read().replace('"/repo/', '"' + alt.rstrip("/") + "/")
                open(pth, "w").write(txt)
    HARNESS = h2
    TARGET = os.path.join(WORK, tag, "target")


def build_driver(profile="mon", quiet=True):
    """Build celmon from /repo's *current working tree* (path dependency). Returns binary path."""
    os.makedirs(WORK, exist_ok=True)
    _alt_repo()
    # one build at a time per target directory (scratch-clone runs have a target directory of their own)
    lock = os.path.join(WORK, "build.lock") if TARGET == os.path.join(WORK, "target") else TARGET + ".lock"
    os.makedirs(os.path.dirname(lock), exist_ok=True)
    import fcntl
    with open(lock, "w") as lf:
        fcntl.flock(lf, fcntl.LOCK_EX)
        cmd = ["cargo", "build", "--offline", "--profile", profile, "--target-dir", TARGET]
        t0 = time.time()
        p = subprocess.run(cmd, cwd=HARNESS, env=cargo_env(), stdout=subprocess.PIPE,
                           stderr=subprocess.STDOUT, text=True)
        if p.returncode != 0:
            tail = "\n".join(p.stdout.splitlines()[-40:])
            raise Inconclusive("driver build failed (not a verdict):\n" + tail)
        if not quiet:
            print(f"[build] {profile} ok in {time.time()-t0:.1f}s", flush=True)
    sub = "debug" if profile == "dev" else profile
    return os.path.join(TARGET, sub, "celmon")


class Driver:
    """Runs case lists through one driver binary with abort / hang supervision."""

    def __init__(self, binary, scratch, env=None, wrapper=None, cwd=None):
        self.binary = binary
        self.scratch = scratch
        self.env = env
        self.wrapper = wrapper or []
        self.cwd = cwd
        os.makedirs(scratch, exist_ok=True)
        self.inconclusive = []   # notes (timeouts that did not reproduce, harness errors)

    def _spawn(self, cases_path, events_path, skip):
        cmd = self.wrapper + ([self.binary] if self.binary else []) + [cases_path, events_path]
        if skip:
            cmd += ["--skip", str(skip)]
        return subprocess.Popen(cmd, stdout=subprocess.DEVNULL, stderr=subprocess.PIPE, env=self.env, cwd=self.cwd)

    def run(self, cases, tag="u", watchdog=CASE_WATCHDOG_S):
        """cases: list of dicts with unique 'id'. Returns list of result dicts aligned with cases.
        A result is the driver's 'r' record, or {'abort': signal/exit}, {'hang': True},
        {'inconclusive': reason}."""
        if not cases:
            return []
        cpath = os.path.join(self.scratch, f"{tag}.cases.jsonl")
        epath = os.path.join(self.scratch, f"{tag}.events.jsonl")
        with open(cpath, "w") as f:
            for c in cases:
                f.write(json.dumps(c, ensure_ascii=True, separators=(",", ":")))
                f.write("\n")
        if os.path.exists(epath):
            os.remove(epath)
        results = [None] * len(cases)
        skip = 0
        guard = 0
        while skip < len(cases):
            guard += 1
            if guard > len(cases) + 5:
                raise Inconclusive("driver restart loop")
            open(epath, "a").close()
            start_size = os.path.getsize(epath)
            proc = self._spawn(cpath, epath, skip)
            last_size, last_change = start_size, time.time()
            killed = False
            while True:
                try:
                    proc.wait(timeout=0.25)
                    break
                except subprocess.TimeoutExpired:
                    sz = os.path.getsize(epath)
                    if sz != last_size:
                        last_size, last_change = sz, time.time()
                    elif time.time() - last_change > watchdog:
                        proc.kill()
                        proc.wait()
                        killed = True
                        break
            stderr = proc.stderr.read().decode("utf-8", "replace")[-2000:] if proc.stderr else ""
            # read events written by this incarnation
            done_upto = skip
            inflight = None
            with open(epath, "rb") as f:
                f.seek(start_size)
                for raw in f:
                    try:
                        ev = json.loads(raw)
                    except Exception:
                        continue  # torn last line of a killed process
                    if "c" in ev and "r" not in ev:
                        inflight = ev.get("n")
                    elif "r" in ev:
                        n = inflight if inflight is not None else done_upto
                        if n is not None and n < len(cases):
                            results[n] = ev
                            done_upto = n + 1
                        inflight = None
            if proc.returncode == 0 and not killed and inflight is None:
                skip = len(cases)
                break
            # the process died or was killed while case `inflight` was running
            if inflight is None:
                # died between cases (or before the first): not attributable to a case
                if done_upto == skip:
                    raise Inconclusive(f"driver died without progress rc={proc.returncode} {stderr}")
                skip = done_upto
                continue
            n = inflight
            if killed:
                results[n] = self._isolate(cases[n], tag)
            else:
                results[n] = {"abort": proc.returncode, "stderr": stderr[-400:]}
            skip = n + 1
        for i, r in enumerate(results):
            if r is None:
                results[i] = {"inconclusive": "no record"}
                self.inconclusive.append(f"no record for case {cases[i].get('id')}")
        return results

    def _isolate(self, case, tag):
        cpath = os.path.join(self.scratch, f"{tag}.iso.cases.jsonl")
        epath = os.path.join(self.scratch, f"{tag}.iso.events.jsonl")
        with open(cpath, "w") as f:
            f.write(json.dumps(case) + "\n")
        if os.path.exists(epath):
            os.remove(epath)
        proc = self._spawn(cpath, epath, 0)
        try:
            proc.wait(timeout=ISOLATED_BUDGET_S)
        except subprocess.TimeoutExpired:
            proc.kill()
            proc.wait()
            return {"hang": True, "budget_s": ISOLATED_BUDGET_S}
        try:
            with open(epath) as f:
                for raw in f:
                    ev = json.loads(raw)
                    if "r" in ev:
                        self.inconclusive.append(f"timeout did not reproduce for case {case.get('id')}")
                        return ev
        except Exception:
            pass
        if proc.returncode != 0:
            return {"abort": proc.returncode}
        self.inconclusive.append(f"isolated re-run gave no record for case {case.get('id')}")
        return {"inconclusive": "isolated re-run gave no record"}


class UnitResult:
    """What one work unit observed. Merged across units by the supervisor."""

    def __init__(self):
        self.evaluations = 0
        self.nontrivial = set()      # 64-bit hashes of distinct non-trivial cases
        self.observed = {}           # counter name -> int, or name -> set (merged by union)
        self.violations = []         # dicts: {sig:[kind,feature,behaviour], case, expected, observed, note}
        self.samples = []
        self.inconclusive = []
        self.exhaustive_done = {}    # sweep name -> bool (completed)
        self.sigcounts = {}

    def count(self, key, n=1):
        self.observed[key] = self.observed.get(key, 0) + n

    def see(self, key, item):
        s = self.observed.setdefault(key, set())
        if isinstance(s, set):
            if len(s) < 5000:
                s.add(item)

    def nt(self, canon):
        self.nontrivial.add(h64(canon))

    def violation(self, kind, feature, behaviour, case, expected=None, observed=None, note=""):
        # capped per signature, so that a frequent (possibly known) finding cannot starve a rare new one
        key = "sigcount:" + json.dumps([kind, feature, behaviour])
        n = self.sigcounts.get(key, 0)
        self.sigcounts[key] = n + 1
        if n < 6:
            self.violations.append({
                "sig": [kind, feature, behaviour], "case": case, "expected": expected,
                "observed": observed, "note": note})
        self.count("violations_total")

    def sample(self, s, cap=8):
        if len(self.samples) < cap:
            self.samples.append(s)

    def merge(self, o):
        self.evaluations += o.evaluations
        self.nontrivial |= o.nontrivial
        for k, v in o.observed.items():
            if isinstance(v, set):
                cur = self.observed.setdefault(k, set())
                if isinstance(cur, set):
                    cur |= v
            else:
                self.observed[k] = self.observed.get(k, 0) + v
        for k, v in o.sigcounts.items():
            self.sigcounts[k] = self.sigcounts.get(k, 0) + v
        per_sig = {}
        for v in self.violations:
            k = json.dumps(v["sig"])
            per_sig[k] = per_sig.get(k, 0) + 1
        for v in o.violations:
            k = json.dumps(v["sig"])
            if per_sig.get(k, 0) < 12 and len(self.violations) < 2000:
                self.violations.append(v)
                per_sig[k] = per_sig.get(k, 0) + 1
        for s in o.samples:
            if len(self.samples) < 10:
                self.samples.append(s)
        self.inconclusive.extend(o.inconclusive)
        for k, v in o.exhaustive_done.items():
            self.exhaustive_done[k] = self.exhaustive_done.get(k, True) and v


def _run_unit(args):
    modname, unit, binary, scratch, seed, tier = args[:6]
    env = args[6] if len(args) > 6 else None
    wrapper = args[7] if len(args) > 7 else None
    sys.path.insert(0, os.path.join(VERIF, "monitors"))
    import importlib
    mod = importlib.import_module(modname)
    drv = Driver(binary, scratch, env=env, wrapper=wrapper)
    res = UnitResult()
    try:
        mod.run_unit(unit, drv, res, seed, tier)
    except Inconclusive as e:
        res.inconclusive.append(f"unit {unit!r}: {e}")
    except Exception:
        res.inconclusive.append(f"unit {unit!r} crashed in the monitor: {traceback.format_exc()[-1500:]}")
    res.inconclusive.extend(drv.inconclusive)
    return res


def load_known(prop):
    try:
        with open(KNOWN) as f:
            k = json.load(f)
    except FileNotFoundError:
        return []
    return [e for e in k.get("findings", []) if e.get("property") == prop and e.get("status") == "open"]


def jsonable(x):
    if isinstance(x, set):
        return sorted(jsonable(i) for i in x)[:60]
    if isinstance(x, dict):
        return {str(k): jsonable(v) for k, v in x.items()}
    if isinstance(x, (list, tuple)):
        return [jsonable(i) for i in x]
    if isinstance(x, bytes):
        return x.hex()
    if isinstance(x, float):
        if x != x or x in (float("inf"), float("-inf")):
            return repr(x)
        return x
    return x


def main_check(prop, modname, tier, seed):
    """Entry used by check.py. Returns the process exit code."""
    t0 = time.time()
    sys.path.insert(0, os.path.join(VERIF, "monitors"))
    import importlib
    mod = importlib.import_module(modname)
    scratch = os.path.join(WORK, "run", f"{prop}-{tier}-{os.getpid()}")
    shutil.rmtree(scratch, ignore_errors=True)
    os.makedirs(scratch, exist_ok=True)
    total = UnitResult()
    stage_notes = []
    units = []
    try:
        proceed = True
        if hasattr(mod, "prebuild"):
            # static precondition of the property (may record a violation without the driver)
            proceed = mod.prebuild(total, stage_notes)
        if proceed:
            binary = build_driver("mon")
            units = mod.units(tier, seed)
            print(f"[{prop}] {tier} seed={seed}: {len(units)} work units on {NPROC} processes", flush=True)
            with ProcessPoolExecutor(max_workers=NPROC) as ex:
                futs = [ex.submit(_run_unit, (modname, u, binary, os.path.join(scratch, f"u{i}"), seed, tier))
                        for i, u in enumerate(units)]
                for f in as_completed(futs):
                    total.merge(f.result())
        # optional extra stages (sanitizers, offline checks over merged data)
        if proceed and hasattr(mod, "extra_stages"):
            mod.extra_stages(tier, seed, scratch, total, stage_notes)
    except Inconclusive as e:
        print(f"INCONCLUSIVE property={prop} {e}", flush=True)
        shutil.rmtree(scratch, ignore_errors=True)
        return 2

    known = load_known(prop)
    new_violations = []
    matched = {}
    for v in total.violations:
        hit = None
        for k in known:
            if list(k["signature"]) == list(v["sig"]):
                hit = k
                break
        if hit:
            n = total.sigcounts.get("sigcount:" + json.dumps(list(v["sig"])), 1)
            matched[hit["id"]] = [hit, n]
        else:
            new_violations.append(v)
    for kid, (k, n) in sorted(matched.items()):
        print(f"KNOWN-FINDING: property={prop} {k['id']}: {k['what_fails']} (seen {n}x this run)", flush=True)

    replay_dir = os.path.join(WORK, "replays")
    os.makedirs(replay_dir, exist_ok=True)
    seen_sigs = {}
    nprinted = 0
    for v in new_violations:
        key = json.dumps(v["sig"])
        seen_sigs[key] = seen_sigs.get(key, 0) + 1
        if seen_sigs[key] > 3 or nprinted >= 25:
            continue
        nprinted += 1
        path = os.path.join(replay_dir, f"{prop}-{tier}-{seed}-{nprinted}.json")
        with open(path, "w") as f:
            json.dump({"property": prop, "module": modname, **jsonable(v)}, f, indent=1)
        print(f"VIOLATION property={prop} replay={path}", flush=True)
        print(f"    sig={v['sig']} note={v.get('note','')[:300]}", flush=True)
        print(f"    case={json.dumps(jsonable(v['case']))[:400]}", flush=True)
        print(f"    expected={json.dumps(jsonable(v.get('expected')))[:300]}", flush=True)
        print(f"    observed={json.dumps(jsonable(v.get('observed')))[:300]}", flush=True)

    wall = time.time() - t0
    incomplete = [k for k, v in total.exhaustive_done.items() if not v]
    rule = getattr(mod, "RULE", "")
    coverage = {
        "evaluations": total.evaluations,
        "distinct_nontrivial": len(total.nontrivial),
        "rule": rule,
        "samples": jsonable(total.samples[:10]),
        "exhaustive": bool(total.exhaustive_done) and not incomplete,
        "exhaustive_sweeps": {k: bool(v) for k, v in total.exhaustive_done.items()},
        "observed": jsonable({k: (v if not isinstance(v, set) else {"distinct": len(v), "values": v})
                              for k, v in sorted(total.observed.items())}),
        "known_findings_seen": {k: n for k, (_, n) in matched.items()},
        "stages": stage_notes,
        "inconclusive_notes": total.inconclusive[:20],
        "work_units": len(units),
    }
    ev = {
        "property_id": prop, "tier": tier, "seed": seed, "level": "exploration",
        "coverage": coverage,
        "assumptions": getattr(mod, "ASSUMPTIONS", []) + [
            "held on the executions listed here, not a proof; driver runs on an 8 MiB stack",
            "Python reference models in /verif/monitors are trusted"],
        "wall_s": round(wall, 2),
        "violations": sum(n for k, n in total.sigcounts.items()
                          if not any(json.dumps(list(kk["signature"])) == k[len("sigcount:"):] for kk in known)),
    }
    os.makedirs(EVIDENCE, exist_ok=True)
    tmp = os.path.join(EVIDENCE, f".{prop}.json.tmp")
    with open(tmp, "w") as f:
        json.dump(ev, f, indent=1)
    os.replace(tmp, os.path.join(EVIDENCE, f"{prop}.json"))
    shutil.rmtree(scratch, ignore_errors=True)

    print(f"[{prop}] evaluations={total.evaluations} distinct_nontrivial={len(total.nontrivial)} "
          f"violations={len(new_violations)} known={sum(n for _, n in matched.values())} "
          f"inconclusive_notes={len(total.inconclusive)} wall={wall:.1f}s", flush=True)
    if new_violations:
        return 1
    if total.evaluations == 0 or len(total.nontrivial) < 2:
        print(f"INCONCLUSIVE property={prop} the run observed nothing", flush=True)
        return 2
    if incomplete:
        print(f"INCONCLUSIVE property={prop} sweeps did not complete: {incomplete}", flush=True)
        return 2
    if total.inconclusive:
        for n in total.inconclusive[:5]:
            print(f"[{prop}] note (inconclusive sub-result, not a verdict): {n[:1200]}", flush=True)
        # harness-level failures make the run inconclusive; isolated non-reproducing timeouts do not
        hard = [n for n in total.inconclusive if "crashed in the monitor" in n or "driver" in n]
        if hard:
            print(f"INCONCLUSIVE property={prop} harness errors", flush=True)
            return 2
    return 0



# ---- sanitizer / interpreter variants of the driver (thorough tier, secondary observers) ----------------

TRIPLE = "x86_64-unknown-linux-gnu"


def build_variant(kind):
    """kind in asan | tsan | miri. Returns (argv_prefix, binary, env, note). Raises Inconclusive if the
    toolchain step fails for environmental reasons (never a verdict)."""
    os.makedirs(WORK, exist_ok=True)
    _alt_repo()
    env = cargo_env()
    tdir = TARGET + "-" + kind
    if kind == "asan":
        env["RUSTFLAGS"] = "-Zsanitizer=address -Cforce-frame-pointers=yes"
        cmd = ["cargo", "+nightly", "build", "--offline", "--profile", "mon", "--target", TRIPLE, "--target-dir", tdir]
        run_env = dict(os.environ, ASAN_OPTIONS="halt_on_error=1:abort_on_error=1:detect_leaks=0:symbolize=1", CELMON_STACK_MB="64")
        binary = os.path.join(tdir, TRIPLE, "mon", "celmon")
    elif kind == "tsan":
        env["RUSTFLAGS"] = "-Zsanitizer=thread"
        cmd = ["cargo", "+nightly", "build", "--offline", "-Zbuild-std", "--profile", "mon", "--target", TRIPLE, "--target-dir", tdir]
        run_env = dict(os.environ, TSAN_OPTIONS="halt_on_error=1:second_deadlock_stack=1", CELMON_STACK_MB="64")
        binary = os.path.join(tdir, TRIPLE, "mon", "celmon")
    elif kind == "miri":
        env["MIRIFLAGS"] = "-Zmiri-disable-isolation"
        cmd = ["cargo", "+nightly", "miri", "setup", "--offline"] if False else None
        run_env = dict(env)
        binary = None
    else:
        raise ValueError(kind)
    t0 = time.time()
    if cmd is not None:
        p = subprocess.run(cmd, cwd=HARNESS, env=env, stdout=subprocess.PIPE, stderr=subprocess.STDOUT, text=True)
        if p.returncode != 0:
            raise Inconclusive(kind + " build failed (environmental, not a verdict):\n" + "\n".join(p.stdout.splitlines()[-25:]))
    return binary, run_env, "%s build %.0fs" % (kind, time.time() - t0)


def classify_sanitizer_abort(rec):
    """Is an abort record a sanitizer report? Returns a short class or None."""
    err = (rec or {}).get("stderr", "") if isinstance(rec, dict) else ""
    for marker, cls in (("AddressSanitizer", "asan"), ("ThreadSanitizer", "tsan"), ("Undefined Behavior", "miri-ub"),
                        ("data race", "data-race"), ("MemorySanitizer", "msan")):
        if marker in err:
            first = ""
            for line in err.splitlines():
                if marker in line:
                    first = line.strip()[:160]
                    break
            return cls + ": " + first
    return None


def run_units_with(modname, units, binary, scratch, seed, tier, env=None, wrapper=None, jobs=None):
    """Run work units of a property module through a variant driver (sanitizer stages)."""
    total = UnitResult()
    with ProcessPoolExecutor(max_workers=jobs or NPROC) as ex:
        futs = [ex.submit(_run_unit, (modname, u, binary, os.path.join(scratch, f"v{i}"), seed, tier, env, wrapper))
                for i, u in enumerate(units)]
        for f in as_completed(futs):
            total.merge(f.result())
    return total


def replay(prop, modname, path):
    sys.path.insert(0, os.path.join(VERIF, "monitors"))
    import importlib
    mod = importlib.import_module(modname)
    with open(path) as f:
        rec = json.load(f)
    binary = build_driver("mon")
    scratch = os.path.join(WORK, "run", f"{prop}-replay-{os.getpid()}")
    drv = Driver(binary, scratch)
    res = UnitResult()
    cases = rec["case"] if isinstance(rec["case"], list) else [rec["case"]]
    out = drv.run(cases, tag="replay")
    print("case     :", json.dumps(rec["case"])[:2000])
    print("expected :", json.dumps(rec.get("expected"))[:2000])
    print("recorded :", json.dumps(rec.get("observed"))[:2000])
    print("now      :", json.dumps(out)[:2000])
    if hasattr(mod, "recheck"):
        mod.recheck(cases, out, res)
        if res.violations:
            print(f"VIOLATION property={prop} replay={path}")
            shutil.rmtree(scratch, ignore_errors=True)
            return 1
        print("replay: the monitor no longer flags this case")
    shutil.rmtree(scratch, ignore_errors=True)
    return 0
