"""Reference evaluator for the expression model: the semantics C03 names, written against Python
ints / floats.  Total on its fragment: returns a value or raises CelError(cls); raises Unsupported
for anything outside the fragment (the monitor then skips the comparison, never guesses).

Side channels recorded during evaluation:
  log      expected host-function call log  ([["t", tag_json], …])
  nodes    number of node evaluations   iters  number of comprehension iterations
  choices  map-iteration order choice points (see `all_outcomes`)
"""
import itertools
import math
import re

from .values import (I64_MIN, I64_MAX, U64_MAX, NULL, to_json, canon, cel_eq, cel_cmp, num_cmp,
                     NUMERIC)


class CelError(Exception):
    def __init__(self, cls, detail=''):
        super().__init__(cls + ': ' + detail)
        self.cls = cls
        self.detail = detail


class Unsupported(Exception):
    pass


class Env:
    def __init__(self, variables=None, parent=None):
        self.vars = dict(variables or {})
        self.parent = parent

    def lookup(self, name):
        e = self
        while e is not None:
            if name in e.vars:
                return e.vars[name]
            e = e.parent
        raise CelError('undeclared', name)

    def child(self):
        return Env({}, self)


BUILTIN_FUNCS = {'size', 'contains', 'startsWith', 'endsWith', 'matches', 'int', 'uint', 'double',
                 'string', 'bytes', 'min', 'max', 'duration', 'timestamp', 'getFullYear', 'getMonth',
                 'getDayOfYear', 'getDayOfMonth', 'getDate', 'getDayOfWeek', 'getHours', 'getMinutes',
                 'getSeconds', 'getMilliseconds'}

INT_RE = re.compile(r'[+-]?[0-9]+\Z')
UINT_RE = re.compile(r'\+?[0-9]+\Z')
# the intersection of what Rust's f64::from_str and Python's float() accept identically
FLOAT_RE = re.compile(r'[+-]?([0-9]+(\.[0-9]*)?|\.[0-9]+)([eE][+-]?[0-9]+)?\Z')

# regex subset on which Python `re` and Rust `regex` agree (ASCII classes, anchors, * + ? | ())
PORTABLE_RE = re.compile(r'[A-Za-z0-9 ^$.*+?|()\[\]-]*\Z')


class Evaluator:
    def __init__(self, order_choices=None, host=None):
        self.log = []
        self.nodes = 0
        self.iters = 0
        self.choices = []          # arity of every map-iteration choice point met
        self.order_choices = order_choices or []
        self.features = set()
        self.skipped_tags = set()
        self.host = host or {}

    # -- helpers -------------------------------------------------------------------------------
    def truth(self, v):
        if v[0] != 'b':
            raise Unsupported('non-bool in boolean position')
        return v[1]

    def perm(self, entries):
        n = len(entries)
        if n <= 1:
            return entries
        idx = len(self.choices)
        arity = math.factorial(n)
        self.choices.append(arity)
        c = self.order_choices[idx] if idx < len(self.order_choices) else 0
        return list(list(itertools.permutations(entries))[c % arity])

    # -- evaluation ----------------------------------------------------------------------------
    def ev(self, e, env):
        self.nodes += 1
        k = e[0]
        if k == 'lit':
            return e[1]
        if k == 'id':
            return env.lookup(e[1])
        if k == 'list':
            return ('l', [self.ev(x, env) for x in e[1]])
        if k == 'map':
            out = []
            for ke, ve in e[1]:
                kv = self.ev(ke, env)
                if kv[0] not in ('i', 'u', 'b', 's'):
                    raise CelError('type', 'map key kind')
                vv = self.ev(ve, env)
                # later duplicate wins (exact, typed key)
                out = [(a, b) for a, b in out if canon(a) != canon(kv)]
                out.append((kv, vv))
            return ('m', out)
        if k == 'struct':
            self.features.add('struct')
            raise CelError('function', 'message construction')
        if k == 'cond':
            c = self.truth(self.ev(e[1], env))
            self.mark_skipped(e[3] if c else e[2])
            return self.ev(e[2] if c else e[3], env)
        if k == 'un':
            v = self.ev(e[2], env)
            return self.unary(e[1], v)
        if k == 'run':
            v = self.ev(e[3], env)
            # an even run denotes the operand itself; the operand is still evaluated once
            self.nodes -= 0
            if e[2] % 2 == 0:
                return v
            return self.unary(e[1], v)
        if k == 'bin':
            return self.binary(e, env)
        if k == 'idx':
            return self.index(self.ev(e[1], env), self.ev(e[2], env))
        if k == 'sel':
            v = self.ev(e[1], env)
            if v[0] != 'm':
                raise Unsupported('select on non-map')
            if e[2] in BUILTIN_FUNCS or e[2] in self.host:
                raise Unsupported('field named like a function')
            for a, b in v[1]:
                if a == ('s', e[2]):
                    return b
            raise CelError('no_such_key', e[2])
        if k == 'has':
            v = self.ev(e[1], env)
            if v[0] != 'm':
                raise Unsupported('has on non-map')
            # presence test by the key's text (documented behaviour); restrict to string keys here
            for a, _ in v[1]:
                if a[0] != 's' and str(a[1]).lower() == e[2]:
                    raise Unsupported('has() on a non-string key with the same text')
            return ('b', any(a == ('s', e[2]) for a, _ in v[1]))
        if k == 'call':
            return self.call(e[1], None, e[2], env)
        if k == 'mcall':
            recv = self.ev(e[1], env)
            return self.call(e[2], recv, e[3], env)
        if k == 'macro':
            return self.macro(e, env)
        raise Unsupported(k)

    def mark_skipped(self, e):
        for tag in tags_in(e):
            self.skipped_tags.add(tag)
        if not (e[0] == 'lit'):
            self.skipped_interesting = getattr(self, 'skipped_interesting', 0) + 1

    def unary(self, op, v):
        if op == '!':
            return ('b', not self.truth(v))
        if v[0] == 'i':
            if v[1] == I64_MIN:
                raise CelError('overflow', 'neg')
            return ('i', -v[1])
        if v[0] == 'd':
            return ('d', -v[1])
        raise CelError('type', 'unary minus')

    def binary(self, e, env):
        op = e[1]
        if op == '&&':
            a = self.truth(self.ev(e[2], env))
            if not a:
                self.mark_skipped(e[3])
                return ('b', False)
            return ('b', self.truth(self.ev(e[3], env)))
        if op == '||':
            a = self.truth(self.ev(e[2], env))
            if a:
                self.mark_skipped(e[3])
                return ('b', True)
            return ('b', self.truth(self.ev(e[3], env)))
        a = self.ev(e[2], env)
        b = self.ev(e[3], env)
        if op in ('+', '-', '*', '/', '%'):
            return arith(op, a, b)
        if op == '==':
            return ('b', cel_eq(a, b))
        if op == '!=':
            return ('b', not cel_eq(a, b))
        if op in ('<', '<=', '>', '>='):
            c = cel_cmp(a, b)
            if c is None:
                if a[0] in ('l', 'm', 'y', 'fn') or b[0] in ('l', 'm', 'y', 'fn') or a[0] != b[0] and not (a[0] in NUMERIC and b[0] in NUMERIC):
                    raise CelError('not_comparable', 'kinds')
                raise CelError('not_comparable', 'nan')
            return ('b', {'<': c < 0, '<=': c <= 0, '>': c > 0, '>=': c >= 0}[op])
        if op == 'in':
            if b[0] == 'l':
                return ('b', any(cel_eq(a, x) for x in b[1]))
            if b[0] == 'm':
                if a[0] not in ('i', 'u', 'b', 's'):
                    return ('b', False)
                return ('b', map_get(b, a) is not None)
            raise Unsupported('in on ' + b[0])
        raise Unsupported(op)

    def index(self, v, i):
        if v[0] == 'l':
            if i[0] != 'i':
                raise CelError('type', 'list index kind')
            if 0 <= i[1] < len(v[1]):
                return v[1][i[1]]
            return NULL
        if v[0] == 'm':
            if i[0] not in ('i', 'u', 'b', 's'):
                raise CelError('type', 'map index kind')
            r = map_get(v, i)
            return NULL if r is None else r
        raise Unsupported('index on ' + v[0])

    def macro(self, e, env):
        kind, recv_e, var, margs = e[1], e[2], e[3], e[4]
        rng = self.ev(recv_e, env)
        if rng[0] == 'l':
            items = list(rng[1])
        elif rng[0] == 'm':
            items = [k for k, _ in self.perm(rng[1])]
        else:
            raise CelError('type', 'comprehension range')
        inner = env.child()

        def body(expr, item):
            inner.vars[var] = item
            self.iters += 1
            return self.ev(expr, inner)

        if kind == 'all':
            for it in items:
                if not self.truth(body(margs[0], it)):
                    return ('b', False)
            return ('b', True)
        if kind == 'exists':
            for it in items:
                if self.truth(body(margs[0], it)):
                    return ('b', True)
            return ('b', False)
        if kind in ('exists_one', 'existsOne'):
            n = 0
            for it in items:
                if self.truth(body(margs[0], it)):
                    n += 1
                    if n == 2 and getattr(self, 'exists_one_early', False):
                        return ('b', False)
            return ('b', n == 1)
        if kind == 'map':
            out = []
            for it in items:
                if len(margs) == 2:
                    if not self.truth(body(margs[0], it)):
                        continue
                    inner.vars[var] = it
                    out.append(self.ev(margs[1], inner))
                else:
                    out.append(body(margs[0], it))
            return ('l', out)
        if kind == 'filter':
            out = []
            for it in items:
                if self.truth(body(margs[0], it)):
                    out.append(it)
            return ('l', out)
        raise Unsupported(kind)

    # -- functions -----------------------------------------------------------------------------
    def call(self, name, recv, arg_exprs, env):
        if name == 't' and recv is None and len(arg_exprs) == 2:
            tag = self.ev(arg_exprs[0], env)
            v = self.ev(arg_exprs[1], env)
            self.log.append(["t", to_json(tag)])
            return v
        if name == 'fail' and recv is None and len(arg_exprs) == 1:
            tag = self.ev(arg_exprs[0], env)
            self.log.append(["fail", to_json(tag)])
            raise CelError('function', 'fail')
        if name in self.host:
            return self.host[name](self, recv, arg_exprs, env)
        args = [self.ev(a, env) for a in arg_exprs]
        full = ([recv] if recv is not None else []) + args
        return builtin(name, recv is not None, full)


def tags_in(e):
    """Tags of logging calls t(tag, …) / fail(tag) with literal tags anywhere inside e."""
    out = []
    k = e[0]
    if k == 'call' and e[1] in ('t', 'fail') and e[2] and e[2][0][0] == 'lit':
        out.append(canon(e[2][0][1]))
    kids = []
    if k in ('sel', 'has'):
        kids = [e[1]]
    elif k == 'idx':
        kids = [e[1], e[2]]
    elif k == 'call':
        kids = e[2]
    elif k == 'mcall':
        kids = [e[1]] + list(e[3])
    elif k == 'list':
        kids = e[1]
    elif k == 'map':
        kids = [x for p in e[1] for x in p]
    elif k == 'struct':
        kids = [v for _, v in e[2]]
    elif k == 'un':
        kids = [e[2]]
    elif k == 'run':
        kids = [e[3]]
    elif k == 'bin':
        kids = [e[2], e[3]]
    elif k == 'cond':
        kids = [e[1], e[2], e[3]]
    elif k == 'macro':
        kids = [e[2]] + list(e[4])
    for c in kids:
        out.extend(tags_in(c))
    return out


def map_get(m, key):
    """Lookup treating numerically equal int and uint keys as the same key."""
    for a, b in m[1]:
        if a == key:
            return b
    if key[0] in ('i', 'u'):
        twin = ('u' if key[0] == 'i' else 'i', key[1])
        if (twin[0] == 'u' and twin[1] >= 0) or (twin[0] == 'i' and twin[1] <= I64_MAX):
            for a, b in m[1]:
                if a == twin:
                    return b
    return None


def trunc_div(a, b):
    q = abs(a) // abs(b)
    return q if (a < 0) == (b < 0) else -q


def arith(op, a, b):
    ka, kb = a[0], b[0]
    if ka == 'i' and kb == 'i':
        x, y = a[1], b[1]
        if op == '/':
            if y == 0:
                raise CelError('div_by_zero')
            r = trunc_div(x, y)
        elif op == '%':
            if y == 0:
                raise CelError('div_by_zero')
            if x == I64_MIN and y == -1:
                raise CelError('overflow', 'rem')
            r = x - trunc_div(x, y) * y
        else:
            r = x + y if op == '+' else (x - y if op == '-' else x * y)
        if not (I64_MIN <= r <= I64_MAX):
            raise CelError('overflow', op)
        return ('i', r)
    if ka == 'u' and kb == 'u':
        x, y = a[1], b[1]
        if op in ('/', '%'):
            if y == 0:
                raise CelError('div_by_zero')
            r = x // y if op == '/' else x % y
        else:
            r = x + y if op == '+' else (x - y if op == '-' else x * y)
        if not (0 <= r <= U64_MAX):
            raise CelError('overflow', op)
        return ('u', r)
    if ka == 'd' and kb == 'd':
        x, y = a[1], b[1]
        if op == '%':
            raise CelError('type', 'double %')
        if op == '/':
            return ('d', fdiv(x, y))
        if op == '*':
            return ('d', fmul(x, y))
        return ('d', x + y if op == '+' else x - y)
    if op == '+' and ka == 's' and kb == 's':
        return ('s', a[1] + b[1])
    if op == '+' and ka == 'l' and kb == 'l':
        return ('l', a[1] + b[1])
    if ka in ('dur', 'ts') or kb in ('dur', 'ts'):
        raise Unsupported('time arithmetic')
    if op == '+' and ka == 'y' and kb == 'y':
        raise Unsupported('bytes concatenation')
    raise CelError('type', 'operands of ' + op)


def fdiv(x, y):
    try:
        return x / y
    except ZeroDivisionError:
        if x != x or x == 0:
            return float('nan')
        neg = (math.copysign(1, x) < 0) != (math.copysign(1, y) < 0)
        return float('-inf') if neg else float('inf')


def fmul(x, y):
    try:
        return x * y
    except OverflowError:  # never raised for floats, kept for safety
        return float('inf')


def to_utf8(s):
    return s.encode('utf-8')


def builtin(name, as_method, a):
    """a = receiver (if any) followed by arguments, all evaluated."""
    n = len(a)
    if name == 'size':
        if n != 1:
            raise Unsupported('size arity')
        v = a[0]
        if v[0] in ('l', 'm'):
            return ('i', len(v[1]))
        if v[0] == 's':
            return ('i', len(v[1]))          # code points
        if v[0] == 'y':
            return ('i', len(v[1]))
        raise CelError('function', 'size of ' + v[0])
    if name == 'contains':
        if n != 2:
            raise Unsupported('contains arity')
        v, x = a
        if v[0] == 'l':
            return ('b', any(cel_eq(x, e) for e in v[1]))
        if v[0] == 'm':
            if x[0] not in ('i', 'u', 'b', 's'):
                raise CelError('type', 'key kind')
            return ('b', map_get(v, x) is not None)
        if v[0] == 's':
            return ('b', x[0] == 's' and x[1] in v[1])
        if v[0] == 'y':
            return ('b', x[0] == 'y' and x[1] in v[1])
        return ('b', False)
    if name in ('startsWith', 'endsWith'):
        if n != 2:
            raise Unsupported('arity')
        if a[0][0] != 's' or a[1][0] != 's':
            raise CelError('type', name)
        return ('b', a[0][1].startswith(a[1][1]) if name == 'startsWith' else a[0][1].endswith(a[1][1]))
    if name == 'matches':
        if n != 2 or a[0][0] != 's' or a[1][0] != 's':
            raise Unsupported('matches')
        pat = a[1][1]
        if not PORTABLE_RE.match(pat) or not a[0][1].isascii():
            raise Unsupported('regex outside the portable subset')
        try:
            return ('b', re.search(pat, a[0][1]) is not None)
        except re.error:
            raise Unsupported('regex rejected by the reference')
    if name == 'int':
        v = one(a)
        if v[0] == 'i':
            return v
        if v[0] == 'u':
            if v[1] > I64_MAX:
                raise CelError('function', 'range')
            return ('i', v[1])
        if v[0] == 'd':
            f = v[1]
            if f != f or f in (float('inf'), float('-inf')):
                raise CelError('function', 'range')
            t = int(f)     # truncates toward zero, exact
            if not (I64_MIN <= t <= I64_MAX):
                raise CelError('function', 'range')
            return ('i', t)
        if v[0] == 's':
            if not INT_RE.match(v[1]) or not v[1].isascii():
                raise CelError('function', 'parse')
            t = int(v[1])
            if not (I64_MIN <= t <= I64_MAX):
                raise CelError('function', 'range')
            return ('i', t)
        raise CelError('function', 'int of ' + v[0])
    if name == 'uint':
        v = one(a)
        if v[0] == 'u':
            return v
        if v[0] == 'i':
            if v[1] < 0:
                raise CelError('function', 'range')
            return ('u', v[1])
        if v[0] == 'd':
            f = v[1]
            if f != f or f in (float('inf'), float('-inf')):
                raise CelError('function', 'range')
            if -1.0 < f < 0.0:
                raise Unsupported('uint of a double in (-1, 0): unspecified')
            t = int(f)
            if not (0 <= t <= U64_MAX) or f < 0:
                raise CelError('function', 'range')
            return ('u', t)
        if v[0] == 's':
            if not UINT_RE.match(v[1]) or not v[1].isascii():
                if INT_RE.match(v[1]) and v[1].isascii() and int(v[1]) == 0:
                    raise Unsupported('uint("-0")')
                raise CelError('function', 'parse')
            t = int(v[1])
            if t > U64_MAX:
                raise CelError('function', 'range')
            return ('u', t)
        raise CelError('function', 'uint of ' + v[0])
    if name == 'double':
        v = one(a)
        if v[0] == 'd':
            return v
        if v[0] in ('i', 'u'):
            return ('d', float(v[1]))
        if v[0] == 's':
            s = v[1]
            if s in ('NaN', 'nan'):
                return ('d', float('nan'))
            if s in ('inf', '+inf', 'infinity', '+infinity'):
                return ('d', float('inf'))
            if s in ('-inf', '-infinity'):
                return ('d', float('-inf'))
            if not FLOAT_RE.match(s) or not s.isascii():
                raise Unsupported('double of a string outside the common grammar')
            return ('d', float(s))
        raise CelError('function', 'double of ' + v[0])
    if name == 'string':
        v = one(a)
        if v[0] == 's':
            return v
        if v[0] in ('i', 'u'):
            return ('s', str(v[1]))
        if v[0] == 'y':
            try:
                return ('s', v[1].decode('utf-8'))
            except UnicodeDecodeError:
                raise Unsupported('string(bytes) on invalid UTF-8')
        if v[0] == 'd':
            raise Unsupported('text of string(double)')
        if v[0] in ('dur', 'ts'):
            raise Unsupported('time')
        raise CelError('function', 'string of ' + v[0])
    if name == 'bytes':
        if as_method:
            raise Unsupported('bytes as method')
        v = one(a)
        if v[0] != 's':
            raise CelError('type', 'bytes arg')
        return ('y', to_utf8(v[1]))
    if name in ('min', 'max'):
        if as_method:
            raise Unsupported('min/max as method')
        items = a
        if n == 1:
            if a[0][0] == 'l':
                items = a[0][1]
            else:
                return a[0]
        if not items:
            return NULL
        acc = items[0]
        for x in items[1:]:
            c = cel_cmp(acc, x)
            if c is None:
                raise CelError('not_comparable', name)
            if name == 'max':
                acc = acc if c > 0 else x
            else:
                acc = acc if c < 0 else x
        return acc
    raise Unsupported('function ' + name)


def one(a):
    if len(a) != 1:
        raise Unsupported('arity')
    return a[0]


# ---- drivers -----------------------------------------------------------------------------------

def run_once(e, variables, order_choices=None, host=None):
    ev = Evaluator(order_choices, host)
    env = Env(variables)
    try:
        v = ev.ev(e, env)
        out = ('ok', v)
    except CelError as ce:
        out = ('err', ce.cls, ce.detail)
    return out, ev


def all_outcomes(e, variables, cap=120, host=None):
    """Evaluate under every map-iteration order (bounded). Returns (list of (outcome, evaluator),
    complete: bool). Raises Unsupported if any run leaves the fragment."""
    results = []
    first, ev0 = run_once(e, variables, [], host)
    results.append((first, ev0))
    if not ev0.choices:
        return results, True
    # enumerate choice vectors; arities may differ between runs, so explore adaptively
    seen = {()}
    frontier = [[]]
    complete = True
    # breadth-first over prefixes: for each run, branch every choice point it met
    work = [(ev0.choices, [])]
    tried = set()
    tried.add(tuple([0] * len(ev0.choices)))
    queue = []
    for pos, ar in enumerate(ev0.choices):
        for c in range(1, ar):
            queue.append([0] * pos + [c])
    while queue:
        if len(results) >= cap:
            complete = False
            break
        vec = queue.pop(0)
        out, ev = run_once(e, variables, vec, host)
        full = tuple((vec + [0] * len(ev.choices))[:len(ev.choices)])
        if full in tried:
            continue
        tried.add(full)
        results.append((out, ev))
        for pos in range(len(vec), len(ev.choices)):
            for c in range(1, ev.choices[pos]):
                queue.append(list(full[:pos]) + [c])
    return results, complete
