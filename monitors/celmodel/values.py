"""CEL value model shared by all monitors, and the typed JSON codec of the driver.

Values are tuples:
  ('i', int) ('u', int) ('d', float) ('s', str) ('y', bytes) ('b', bool) ('n',)
  ('l', [v…]) ('m', [(k, v)…])  (keys are i/u/b/s values; order = iteration order as observed)
  ('dur', total_nanoseconds:int)  ('ts', (secs, nanos, offset_secs))  ('fn', name, receiver|None)
"""
import math
import struct
from fractions import Fraction

I64_MIN, I64_MAX = -(1 << 63), (1 << 63) - 1
U64_MAX = (1 << 64) - 1

NULL = ('n',)


def I(x): return ('i', x)
def U(x): return ('u', x)
def D(x): return ('d', float(x))
def S(x): return ('s', x)
def Y(x): return ('y', bytes(x))
def B(x): return ('b', bool(x))
def L(xs): return ('l', list(xs))
def M(es): return ('m', list(es))
def DUR(ns): return ('dur', ns)
def TS(secs, nanos=0, off=0): return ('ts', (secs, nanos, off))


def dbits(f):
    return struct.unpack('<Q', struct.pack('<d', f))[0]


def bitsd(b):
    return struct.unpack('<d', struct.pack('<Q', b))[0]


def to_json(v):
    k = v[0]
    if k == 'i':
        return {"i": v[1]}
    if k == 'u':
        return {"u": v[1]}
    if k == 'd':
        return {"d": dbits(v[1])}
    if k == 's':
        return {"s": v[1]}
    if k == 'y':
        return {"y": v[1].hex()}
    if k == 'b':
        return {"b": v[1]}
    if k == 'n':
        return {"n": 0}
    if k == 'l':
        return {"l": [to_json(x) for x in v[1]]}
    if k == 'm':
        return {"m": [[to_json(a), to_json(b)] for a, b in v[1]]}
    if k == 'dur':
        ns = v[1]
        # truncating split, both parts carry the sign (what chrono's accessors report)
        secs = abs(ns) // 1_000_000_000
        sub = abs(ns) % 1_000_000_000
        if ns < 0:
            secs, sub = -secs, -sub
        return {"dur": [secs, sub]}
    if k == 'ts':
        return {"ts": list(v[1])}
    if k == 'fn':
        return {"fn": [v[1], None if v[2] is None else to_json(v[2])]}
    raise ValueError(v)


def from_json(j):
    (k, x), = j.items()
    if k == 'i':
        return ('i', x)
    if k == 'u':
        return ('u', x)
    if k == 'd':
        return ('d', bitsd(x))
    if k == 's':
        return ('s', x)
    if k == 'y':
        return ('y', bytes.fromhex(x))
    if k == 'b':
        return ('b', x)
    if k == 'n':
        return NULL
    if k == 'l':
        return ('l', [from_json(e) for e in x])
    if k == 'm':
        return ('m', [(from_json(a), from_json(b)) for a, b in x])
    if k == 'dur':
        return ('dur', x[0] * 1_000_000_000 + x[1])
    if k == 'ts':
        return ('ts', tuple(x))
    if k == 'fn':
        return ('fn', x[0], None if x[1] is None else from_json(x[1]))
    raise ValueError(j)


def canon(v):
    """Canonical text: typed, doubles by bit pattern, map entries sorted."""
    k = v[0]
    if k == 'd':
        if v[1] != v[1]:
            return 'dNaN'       # sign and payload of a NaN are not part of the value
        return 'd%016x' % dbits(v[1])
    if k == 'l':
        return 'l[' + ','.join(canon(x) for x in v[1]) + ']'
    if k == 'm':
        return 'm{' + ','.join(sorted(canon(a) + ':' + canon(b) for a, b in v[1])) + '}'
    if k == 'y':
        return 'y' + v[1].hex()
    if k == 'fn':
        return 'fn(' + v[1] + ',' + ('-' if v[2] is None else canon(v[2])) + ')'
    if k == 'n':
        return 'n'
    return k + repr(v[1])


def struct_eq(a, b):
    """Typed structural equality: Int 1 != UInt 1 != Double 1.0; NaN == NaN; -0.0 != +0.0;
    maps compared as sets of entries."""
    return canon(a) == canon(b)


def is_nan(v):
    return v[0] == 'd' and v[1] != v[1]


NUMERIC = ('i', 'u', 'd')


def num_cmp(a, b):
    """Exact comparison among int/uint/double values. None if a NaN is involved."""
    x, y = a[1], b[1]
    if (a[0] == 'd' and x != x) or (b[0] == 'd' and y != y):
        return None
    # Python compares int and float exactly
    return -1 if x < y else (1 if x > y else 0)


def cel_eq(a, b):
    """CEL equality as this implementation defines it (C09): numbers by value across
    int/uint/double, NaN unequal to everything, lists elementwise, maps entrywise (keys typed),
    unrelated kinds unequal."""
    ka, kb = a[0], b[0]
    if ka in NUMERIC and kb in NUMERIC:
        return num_cmp(a, b) == 0
    if ka != kb:
        return False
    if ka == 'l':
        return len(a[1]) == len(b[1]) and all(cel_eq(x, y) for x, y in zip(a[1], b[1]))
    if ka == 'm':
        if len(a[1]) != len(b[1]):
            return False
        db = {canon(k): v for k, v in b[1]}
        for k, v in a[1]:
            w = db.get(canon(k))
            if w is None or not cel_eq(v, w):
                return False
        return True
    if ka == 'n':
        return True
    if ka == 'ts':
        return ts_instant(a) == ts_instant(b)
    if ka == 'fn':
        return a[1] == b[1] and ((a[2] is None and b[2] is None) or
                                 (a[2] is not None and b[2] is not None and cel_eq(a[2], b[2])))
    return a[1] == b[1]


def ts_instant(t):
    secs, nanos, _ = t[1]
    return secs * 1_000_000_000 + nanos


def cel_cmp(a, b):
    """Ordering where this implementation defines one, else None."""
    ka, kb = a[0], b[0]
    if ka in NUMERIC and kb in NUMERIC:
        return num_cmp(a, b)
    if ka != kb:
        return None
    if ka == 's':
        # by code point == by UTF-8 bytes
        x, y = a[1].encode('utf-8', 'surrogatepass'), b[1].encode('utf-8', 'surrogatepass')
        return -1 if x < y else (1 if x > y else 0)
    if ka == 'b':
        return (a[1] > b[1]) - (a[1] < b[1])
    if ka == 'n':
        return 0
    if ka == 'dur':
        return (a[1] > b[1]) - (a[1] < b[1])
    if ka == 'ts':
        x, y = ts_instant(a), ts_instant(b)
        return (x > y) - (x < y)
    return None


def type_name(v):
    return {'i': 'int', 'u': 'uint', 'd': 'double', 's': 'string', 'y': 'bytes', 'b': 'bool',
            'n': 'null', 'l': 'list', 'm': 'map', 'dur': 'duration', 'ts': 'timestamp',
            'fn': 'function'}[v[0]]


def depth(v):
    if v[0] == 'l':
        return 1 + max([depth(x) for x in v[1]] or [0])
    if v[0] == 'm':
        return 1 + max([depth(x) for _, x in v[1]] or [0])
    return 0


# ---- outcome of an execution as reported by the driver --------------------------------------

ERR_CLASS = {
    'IntegerOverflow': 'overflow',
    'DivisionByZero': 'div_by_zero',
    'RemainderByZero': 'div_by_zero',
    'NoSuchKey': 'no_such_key',
    'UndeclaredReference': 'undeclared',
    'ValuesNotComparable': 'not_comparable',
    'UnsupportedBinaryOperator': 'type',
    'UnsupportedUnaryOperator': 'type',
    'UnexpectedType': 'type',
    'UnsupportedKeyType': 'type',
    'UnsupportedMapIndex': 'type',
    'UnsupportedListIndex': 'type',
    'UnsupportedIndex': 'type',
    'UnsupportedTargetType': 'type',
    'NotSupportedAsMethod': 'type',
    'UnsupportedFunctionCallIdentifierType': 'type',
    'UnsupportedFieldsConstruction': 'type',
    'FunctionError': 'function',
    'InvalidArgumentCount': 'arg_count',
    'MissingArgumentOrTarget': 'arg_count',
    'Other': 'other',
}


def outcome(res):
    """Normalise a driver result record -> ('ok', value) | ('err', cls, variant, fields) |
    ('panic', msg, file) | ('abort', rc) | ('hang',) | ('inconclusive', why)."""
    if res is None:
        return ('inconclusive', 'missing')
    if 'ok' in res:
        return ('ok', from_json(res['ok']))
    if 'err' in res:
        cls = ERR_CLASS.get(res['err'], 'other')
        if res['err'] == 'Other' and res.get('name'):
            # a variant this harness does not know (ExecutionError is non_exhaustive): classified by its name
            n = res['name']
            for pat, c in (('Overflow', 'overflow'), ('ByZero', 'div_by_zero'), ('NoSuchKey', 'no_such_key'), ('Undeclared', 'undeclared'),
                           ('NotComparable', 'not_comparable')):
                if pat in n:
                    cls = c
                    break
            return ('err', cls, 'Other:' + n, res.get('f'))
        return ('err', cls, res['err'], res.get('f'))
    if 'panic' in res:
        return ('panic', res['panic'], res.get('file', ''))
    if 'abort' in res:
        return ('abort', res['abort'], res.get('stderr', ''))
    if 'hang' in res:
        return ('hang',)
    return ('inconclusive', str(res)[:200])


def top_outcome(rec, key='res'):
    """Outcome of an exec-like record (which may itself have aborted / hung / panicked)."""
    if rec is None:
        return ('inconclusive', 'missing')
    for k in ('abort', 'hang', 'panic', 'inconclusive'):
        if k in rec:
            return outcome(rec)
    if 'harness_err' in rec:
        return ('inconclusive', 'harness: ' + str(rec['harness_err']))
    if 'compile_err' in rec:
        return ('compile_err', rec['compile_err'])
    if key in rec:
        return outcome(rec[key])
    return ('inconclusive', str(rec)[:200])


def is_crash(o):
    return o[0] in ('panic', 'abort', 'hang')
