"""Model of the driver's host-function catalogue (harness/src/hostfns.rs): for each function its
extractor list, from which the expected behaviour follows: arguments are evaluated lazily in
parameter order, each converted right after it was evaluated; a missing argument or a kind mismatch
is an error raised *before* the function body runs (so nothing is logged); surplus arguments are
never evaluated."""
from .values import to_json, NULL
from .refeval import CelError, Unsupported

KINDS = {'i': 'i', 'u': 'u', 'd': 'd', 's': 's', 'y': 'y', 'b': 'b', 'l': 'l', 'D': 'dur', 'T': 'ts'}

# name -> (this_kind or None, [param letters], flavour)
CATALOGUE = {}


def _add(name, params, this=None, flavour='plain'):
    CATALOGUE[name] = (this, list(params), flavour)


for _n in ["h0", "h1_i", "h1_u", "h1_d", "h1_s", "h1_y", "h1_b", "h1_l", "h1_D", "h1_T", "h1_v", "h2_is", "h2_si",
           "h2_vv", "h2_ub", "h2_dl", "h3_isb", "h3_vyv", "h3_DTd", "h4_iudb", "h4_svls", "h5_iiiii", "h5_suvbi",
           "h6_isisis", "h7_iudsybl", "h8_vvvvvvvv", "h9_iiiiiiiii", "h9_sudbyvlDT"]:
    _add(_n, _n.split('_')[1] if '_' in _n else '')
for _n in ["c0", "c1_i", "c2_sv", "c3_uib", "c9_iiiiiiiii"]:
    _add(_n, _n.split('_')[1] if '_' in _n else '', flavour='ftx')
for _n in ["m0_v", "m0_s", "m0_i", "m1_si", "m1_vv", "m1_ls", "m2_ius", "m3_vivb", "m8_iiiiiiiii"]:
    sig = _n.split('_')[1]
    _add(_n, sig[1:], this=sig[0], flavour='this')
for _n in ["o0_i", "o0_s", "o0_l"]:
    _add(_n, '', this=_n.split('_')[1], flavour='thisopt')


def conv_ok(letter, v):
    if letter == 'v':
        return True
    return v[0] == KINDS[letter]


def mark_short(ev, supplied, needed):
    """An under-supplied call (fewer arguments than the function declares) is ill-formed: it ends in an error
    whichever way the arguments it does have are treated. The reference keeps modelling the lazy, in-order
    extraction, but records where in the log the call started so that an oracle can accept any evaluation
    strategy that is 'at most once, in source order' for the rest (checking the arity first, for instance)."""
    if supplied < needed:
        if not hasattr(ev, 'short_calls'):
            ev.short_calls = []
        ev.short_calls.append(len(ev.log))


def make_host():
    """name -> callable(ev, recv, arg_exprs, env) evaluating lazily like the extractors do."""
    host = {}

    def typed(name):
        this_kind, params, flavour = CATALOGUE[name]

        def f(ev, recv, arg_exprs, env):
            got = []
            idx = 0
            mark_short(ev, len(arg_exprs), len(params) + (1 if flavour in ('this', 'thisopt') and recv is None else 0))
            if flavour in ('this', 'thisopt'):
                if recv is not None:
                    tv = recv
                else:
                    if idx >= len(arg_exprs):
                        raise CelError('arg_count', 'missing target')
                    tv = ev.ev(arg_exprs[idx], env)
                    idx += 1
                if flavour == 'thisopt':
                    if tv[0] == 'n':
                        got.append(NULL)
                        got.append(False)
                    elif conv_ok(this_kind, tv):
                        got.append(tv)
                        got.append(True)
                    else:
                        raise CelError('type', 'this kind')
                else:
                    if not conv_ok(this_kind, tv):
                        raise CelError('type', 'this kind')
                    got.append(tv)
            for p in params:
                if idx >= len(arg_exprs):
                    raise CelError('arg_count', 'missing argument')
                v = ev.ev(arg_exprs[idx], env)
                idx += 1
                if not conv_ok(p, v):
                    raise CelError('type', 'argument kind')
                got.append(v)
            ev.log.append([name] + [to_json(x) if isinstance(x, tuple) else x for x in got])
            if flavour == 'ftx':
                return ('s', name + ':' + name)
            return ('s', name)
        return f

    for n in CATALOGUE:
        host[n] = typed(n)

    def positional_this(name, before, this_kind, after):
        """This<T> declared after `before` positional parameters: in method style the receiver, in function
        style the next unconsumed argument."""
        def f(ev, recv, arg_exprs, env):
            got, idx = [], 0
            mark_short(ev, len(arg_exprs), len(before) + len(after) + (1 if recv is None else 0))

            def take(letter):
                nonlocal idx
                if idx >= len(arg_exprs):
                    raise CelError('arg_count', 'missing argument')
                v = ev.ev(arg_exprs[idx], env)
                idx += 1
                if not conv_ok(letter, v):
                    raise CelError('type', 'argument kind')
                return v
            for p_ in before:
                got.append(take(p_))
            if recv is not None:
                if not conv_ok(this_kind, recv):
                    raise CelError('type', 'this kind')
                got.append(recv)
            else:
                if idx >= len(arg_exprs):
                    raise CelError('arg_count', 'missing target')
                got.append(take(this_kind))
            for p_ in after:
                got.append(take(p_))
            ev.log.append([name] + [to_json(x) for x in got])
            return ('s', name)
        return f
    host['p2_iv'] = positional_this('p2_iv', 'i', 'v', '')
    host['p3_ivi'] = positional_this('p3_ivi', 'i', 'v', 'i')
    host['p3_ssv'] = positional_this('p3_ssv', 'ss', 's', '')

    def va(ev, recv, arg_exprs, env):
        args = [ev.ev(a, env) for a in arg_exprs]
        ev.log.append(["va", None if recv is None else to_json(recv)] + [to_json(a) for a in args])
        return ('l', args)
    host['va'] = va

    def va0(ev, recv, arg_exprs, env):
        args = [ev.ev(a, env) for a in arg_exprs]
        ev.log.append(["va0"] + [to_json(a) for a in args])
        return ('i', len(args))
    host['va0'] = va0

    def ma(ev, recv, arg_exprs, env):
        idx = 0
        mark_short(ev, len(arg_exprs), 1 if recv is None else 0)
        if recv is not None:
            tv = recv
            rest = arg_exprs
        else:
            if not arg_exprs:
                raise CelError('arg_count', 'missing target')
            tv = ev.ev(arg_exprs[0], env)
            rest = arg_exprs[1:]
        args = [ev.ev(a, env) for a in rest]
        ev.log.append(["ma", to_json(tv)] + [to_json(a) for a in args])
        return ('s', 'ma')
    host['ma'] = ma

    def ex1(ev, recv, arg_exprs, env):
        mark_short(ev, len(arg_exprs), 1)
        if not arg_exprs:
            raise CelError('arg_count', 'missing argument')
        v = ev.ev(arg_exprs[0], env)
        ev.log.append(["ex1", to_json(v)])
        return v
    host['ex1'] = ex1

    def ex0(ev, recv, arg_exprs, env):
        mark_short(ev, len(arg_exprs), 1)
        if not arg_exprs:
            raise CelError('arg_count', 'missing argument')
        ev.log.append(["ex0"])
        return NULL
    host['ex0'] = ex0

    def id1(ev, recv, arg_exprs, env):
        mark_short(ev, len(arg_exprs), 1)
        if not arg_exprs:
            raise CelError('arg_count', 'missing argument')
        if arg_exprs[0][0] != 'id':
            raise CelError('type', 'not an identifier')
        ev.log.append(["id1", arg_exprs[0][1]])
        return ('s', arg_exprs[0][1])
    host['id1'] = id1

    def id2(ev, recv, arg_exprs, env):
        mark_short(ev, len(arg_exprs), 2)
        if not arg_exprs:
            raise CelError('arg_count', 'missing argument')
        if arg_exprs[0][0] != 'id':
            raise CelError('type', 'not an identifier')
        if len(arg_exprs) < 2:
            raise CelError('arg_count', 'missing argument')
        v = ev.ev(arg_exprs[1], env)
        ev.log.append(["id2", arg_exprs[0][1], to_json(v)])
        return v
    host['id2'] = id2

    def vid(ev, recv, arg_exprs, env):
        mark_short(ev, len(arg_exprs), 2)
        if not arg_exprs:
            raise CelError('arg_count', 'missing argument')
        v = ev.ev(arg_exprs[0], env)
        if len(arg_exprs) < 2:
            raise CelError('arg_count', 'missing argument')
        if arg_exprs[1][0] != 'id':
            raise CelError('type', 'not an identifier')
        ev.log.append(["vid", to_json(v), arg_exprs[1][1]])
        return v
    host['vid'] = vid
    return host
