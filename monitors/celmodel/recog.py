"""A hand-written lexer + recursive-descent recogniser for antlr/src/gen/CEL.g4.

Answers "is this text one complete CEL expression (syntactically)?".  Used one-way only (C01:
a text the library accepts must be accepted here), so where the grammar is ambiguous this
recogniser leans towards accepting.
"""
import re

HEX = '0-9a-fA-F'
ESC = (r'\\(?:[abfnrtv"\'\\?`]|[0-3][0-7][0-7]|[xX][%s]{2}|u[%s]{4}|U[%s]{8})' % (HEX, HEX, HEX))

STRING_FORMS = [
    r'"""(?:%s|[^\\])*?"""' % ESC,
    r"'''(?:%s|[^\\])*?'''" % ESC,
    r'"(?:%s|[^\\"\n\r])*"' % ESC,
    r"'(?:%s|[^\\'\n\r])*'" % ESC,
    r'[rR]"""(?:.|\n)*?"""',
    r"[rR]'''(?:.|\n)*?'''",
    r'[rR]"[^"\n\r]*"',
    r"[rR]'[^'\n\r]*'",
]
STRING_RE = '(?:' + '|'.join(STRING_FORMS) + ')'

TOKEN_SPEC = [
    ('WS', r'[\t \r\n\f]+'),
    ('COMMENT', r'//[^\n]*'),
    ('BYTES', r'[bB]' + STRING_RE),
    ('STRING', STRING_RE),
    ('NUM_FLOAT', r'(?:[0-9]+\.[0-9]+(?:[eE][+-]?[0-9]+)?|[0-9]+[eE][+-]?[0-9]+|\.[0-9]+(?:[eE][+-]?[0-9]+)?)'),
    ('NUM_UINT', r'(?:0x[%s]+|[0-9]+)[uU]' % HEX),
    ('NUM_INT', r'(?:0x[%s]+|[0-9]+)' % HEX),
    ('IDENT', r'[A-Za-z_][A-Za-z0-9_]*'),
    ('ESC_IDENT', r'`[A-Za-z0-9_.\-/ ]+`'),
    ('OP', r'==|!=|<=|>=|&&|\|\||[<>\[\]{}().,\-!?:+*/%]'),
]
COMPILED = [(n, re.compile(p, re.S)) for n, p in TOKEN_SPEC]
KEYWORDS = {'true', 'false', 'null', 'in'}


class LexError(Exception):
    pass


def lex(text):
    """Maximal munch; ties go to the earlier rule (ANTLR lexer semantics)."""
    toks = []
    i, n = 0, len(text)
    while i < n:
        best = None
        for name, rx in COMPILED:
            m = rx.match(text, i)
            if m and m.end() > i:
                if best is None or m.end() > best[1]:
                    best = (name, m.end())
        if best is None:
            raise LexError("no token at %d: %r" % (i, text[i:i + 10]))
        name, end = best
        s = text[i:end]
        if name == 'IDENT' and s in KEYWORDS:
            name = s
        if name not in ('WS', 'COMMENT'):
            toks.append((name if name != 'OP' else s, s))
        i = end
    return toks


class ParseFail(Exception):
    pass


class P:
    def __init__(self, toks):
        self.t = toks
        self.i = 0
        self.depth = 0

    def peek(self, k=0):
        j = self.i + k
        return self.t[j][0] if j < len(self.t) else 'EOF'

    def eat(self, kind):
        if self.peek() != kind:
            raise ParseFail("expected %s at %d, got %s" % (kind, self.i, self.peek()))
        self.i += 1

    def start(self):
        self.expr()
        if self.peek() != 'EOF':
            raise ParseFail("trailing token")

    def expr(self):
        self.depth += 1
        if self.depth > 400:
            raise ParseFail("too deep")
        self.cond_or()
        if self.peek() == '?':
            self.i += 1
            self.cond_or()
            self.eat(':')
            self.expr()
        self.depth -= 1

    def cond_or(self):
        self.cond_and()
        while self.peek() == '||':
            self.i += 1
            self.cond_and()

    def cond_and(self):
        self.relation()
        while self.peek() == '&&':
            self.i += 1
            self.relation()

    def relation(self):
        self.calc()
        while self.peek() in ('<', '<=', '>=', '>', '==', '!=', 'in'):
            self.i += 1
            self.calc()

    def calc(self):
        self.unary()
        while self.peek() in ('*', '/', '%', '+', '-'):
            self.i += 1
            self.unary()

    def unary(self):
        if self.peek() == '!':
            while self.peek() == '!':
                self.i += 1
            self.member()
        elif self.peek() == '-':
            # greedy run of '-'; a final '-' directly before a number may be the literal's sign,
            # which `primary` accepts (either reading is syntactically fine)
            while self.peek() == '-':
                if self.peek(1) in ('NUM_INT', 'NUM_FLOAT'):
                    break
                self.i += 1
            self.member()
        else:
            self.member()

    def member(self):
        self.primary()
        while True:
            k = self.peek()
            if k == '.':
                self.i += 1
                if self.peek() == '?':
                    self.i += 1
                    if self.peek() in ('IDENT', 'ESC_IDENT'):
                        self.i += 1
                    else:
                        raise ParseFail("select")
                elif self.peek() == 'IDENT':
                    self.i += 1
                    if self.peek() == '(':
                        self.i += 1
                        if self.peek() != ')':
                            self.expr_list()
                        self.eat(')')
                elif self.peek() == 'ESC_IDENT':
                    self.i += 1
                else:
                    raise ParseFail("select")
            elif k == '[':
                self.i += 1
                if self.peek() == '?':
                    self.i += 1
                self.expr()
                self.eat(']')
            else:
                return

    def expr_list(self):
        self.expr()
        while self.peek() == ',':
            self.i += 1
            self.expr()

    def opt_expr(self):
        if self.peek() == '?':
            self.i += 1
        self.expr()

    def primary(self):
        k = self.peek()
        if k == '-' and self.peek(1) in ('NUM_INT', 'NUM_FLOAT'):
            self.i += 2
            return
        if k in ('NUM_INT', 'NUM_UINT', 'NUM_FLOAT', 'STRING', 'BYTES', 'true', 'false', 'null'):
            self.i += 1
            return
        if k == '(':
            self.i += 1
            self.expr()
            self.eat(')')
            return
        if k == '[':
            self.i += 1
            if self.peek() not in (']', ','):
                self.opt_expr()
                while self.peek() == ',' and self.peek(1) != ']':
                    self.i += 1
                    self.opt_expr()
            if self.peek() == ',':
                self.i += 1
            self.eat(']')
            return
        if k == '{':
            self.i += 1
            if self.peek() not in ('}', ','):
                self.map_entry()
                while self.peek() == ',' and self.peek(1) != '}':
                    self.i += 1
                    self.map_entry()
            if self.peek() == ',':
                self.i += 1
            self.eat('}')
            return
        if k == '.' or k == 'IDENT':
            save = self.i
            if k == '.':
                self.i += 1
                if self.peek() != 'IDENT':
                    raise ParseFail("leading dot")
            # message construction: IDENT ('.' IDENT)* '{'
            j = self.i
            while self.peek(j - self.i) == 'IDENT' and self.peek(j - self.i + 1) == '.' and self.peek(j - self.i + 2) == 'IDENT':
                j += 2
            if self.peek(j - self.i) == 'IDENT' and self.peek(j - self.i + 1) == '{':
                self.i = j + 2
                if self.peek() not in ('}', ','):
                    self.field_entry()
                    while self.peek() == ',' and self.peek(1) != '}':
                        self.i += 1
                        self.field_entry()
                if self.peek() == ',':
                    self.i += 1
                self.eat('}')
                return
            self.i += 1  # IDENT
            if self.peek() == '(':
                self.i += 1
                if self.peek() != ')':
                    self.expr_list()
                self.eat(')')
            return
        raise ParseFail("unexpected %s at %d" % (k, self.i))

    def map_entry(self):
        self.opt_expr()
        self.eat(':')
        self.expr()

    def field_entry(self):
        if self.peek() == '?':
            self.i += 1
        if self.peek() in ('IDENT', 'ESC_IDENT'):
            self.i += 1
        else:
            raise ParseFail("field name")
        self.eat(':')
        self.expr()


def recognises(text):
    """True iff `text` lexes completely and parses as one complete expression."""
    try:
        toks = lex(text)
    except LexError:
        return False
    try:
        P(toks).start()
        return True
    except ParseFail:
        return False
    except RecursionError:
        return True    # lean towards accepting: never the source of an alarm
