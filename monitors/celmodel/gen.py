"""Generators: hostile value pool, typed expression generator (C03 fragment), untyped expression
generator (C01 / C02 / C19), random values."""
import math
import struct

from .values import (I, U, D, S, Y, B, L, M, NULL, DUR, TS, I64_MIN, I64_MAX, U64_MAX, bitsd)

# ---- values ------------------------------------------------------------------------------------------

INT_EDGE = [0, 1, -1, 2, -2, 7, 10, -10, 127, 128, 255, 256, (1 << 31) - 1, 1 << 31, -(1 << 31), (1 << 31) + 1,
            (1 << 32), (1 << 53) - 1, 1 << 53, (1 << 53) + 1, -(1 << 53), -(1 << 53) - 1,
            I64_MAX, I64_MAX - 1, I64_MIN, I64_MIN + 1, 3037000499, 3037000500]
UINT_EDGE = [0, 1, 2, 7, 10, 255, 256, (1 << 31), (1 << 32) - 1, 1 << 32, (1 << 53) - 1, 1 << 53, (1 << 53) + 1,
             I64_MAX, I64_MAX + 1, U64_MAX, U64_MAX - 1, 4294967296 - 1]
DBL_EDGE = [0.0, -0.0, 1.0, -1.0, 0.5, -0.5, 1.5, 2.5, 1e-9, 1e9, 1e300, -1e300, 5e-324, 2.2250738585072014e-308,
            float(1 << 53), float((1 << 53) + 2), 9007199254740993.0, float(1 << 63), -float(1 << 63), float(1 << 64),
            9223372036854774784.0, 18446744073709549568.0, 3.141592653589793, 1.7976931348623157e308,
            float('inf'), float('-inf'), float('nan')]
STR_EDGE = ["", "a", "b", "ab", "abc", "A", "foo", "foobar", " ", "0", "1", "-1", "10", "1.5", "true", "é", "ß",
            "日本", "𝄞", "a𝄞b", "\u0000", "a\nb", "'", '"', "\\", "a'b\"c", "é́", "￿", "\U0010ffff",
            "x" * 40, "NaN", "inf", "9223372036854775807", "18446744073709551615", "1e3"]
BYTES_EDGE = [b"", b"a", b"ab", b"abc", b"\x00", b"\xff", b"\xff\xfe", b"\xc3\xa9", b"\xf0\x9d\x84\x9e", b"\x80",
              b"foo", b"a\x00b", bytes(range(0, 256, 17))]

NS = 1_000_000_000
DUR_EDGE = [0, 1, -1, 999, -999, 1000, -1000, 1_000_000, -1_000_000, NS, -NS, 59_999_999_999, -59_999_999_999,
            60 * NS, -60 * NS, 3600 * NS, -3600 * NS, I64_MAX, I64_MAX - 1, I64_MIN, I64_MIN + 1, 86400 * NS,
            1500 * 1_000_000, 90 * 60 * NS]
# beyond i64 nanoseconds (chrono TimeDelta's own limits are +-i64::MAX milliseconds)
DUR_BEYOND = [I64_MAX + 1, I64_MIN - 1, (I64_MAX // 1000) * 1_000_000_000 + 807_000_000,
              -((I64_MAX // 1000) * 1_000_000_000 + 807_000_000), 10 ** 20, -10 ** 20]

# (secs since epoch, nanos, offset seconds)
TS_EDGE = [(0, 0, 0), (1685232000, 0, 0), (1685232000, 123456789, 3600), (-1, 999999999, -3600),
           (951782400, 0, 0), (951868799, 999999999, 14 * 3600), (-62135596800, 0, 0),
           (253402300799, 999999999, 0), (253402300799, 999999999, -12 * 3600), (-62135596800, 0, 14 * 3600),
           (2147483647, 0, 0), (2147483648, 0, 19800), (4102444800, 0, -34200),
           (8210266876799, 999999999, 0), (-8334601228800, 0, 0),
           (8210266876799, 999999999, 86399), (-8334601228800, 0, -86399),
           (8210266876799, 999999999, -86399), (-8334601228800, 0, 86399)]


def hostile_pool():
    """The value pool C02 / C09 / C18 draw from (about 150 values)."""
    vals = []
    vals += [I(x) for x in INT_EDGE]
    vals += [U(x) for x in UINT_EDGE]
    vals += [D(x) for x in DBL_EDGE]
    vals += [S(x) for x in STR_EDGE]
    vals += [Y(x) for x in BYTES_EDGE]
    vals += [B(True), B(False), NULL]
    vals += [L([]), L([I(1)]), L([I(1), I(2), I(3)]), L([I(1), U(1), D(1.0)]), L([D(float('nan'))]),
             L([L([]), L([I(1)])]), L([S("a"), S("b")]), L([NULL]), L([I(I64_MAX), I(I64_MIN)]),
             L([B(True), S("x"), Y(b"y"), NULL])]
    vals += [M([]), M([(S("a"), I(1))]), M([(I(1), S("x")), (I(2), S("y"))]), M([(U(1), I(0))]),
             M([(B(True), I(1)), (B(False), I(2))]), M([(S("a"), M([(S("b"), L([I(1)]))]))]),
             M([(I(1), I(1)), (S("1"), I(2)), (U(2), I(3))]), M([(S("k"), NULL)]),
             M([(S("size"), I(1))]), M([(I(I64_MIN), D(float('nan')))])]
    vals += [DUR(x) for x in DUR_EDGE]
    vals += [DUR(x) for x in DUR_BEYOND]
    vals += [TS(*t) for t in TS_EDGE]
    vals += [('fn', 'size', None), ('fn', 'nosuch', I(1)), ('fn', 't', L([I(1)]))]
    return vals


def rnd_int(rng):
    m = rng.random()
    if m < 0.35:
        return rng.choice(INT_EDGE)
    if m < 0.6:
        return rng.randint(-20, 20)
    if m < 0.8:
        bits = rng.randint(1, 63)
        x = rng.getrandbits(bits)
        return -x if rng.random() < 0.5 else x
    x = rng.choice(INT_EDGE) + rng.randint(-2, 2)
    return max(I64_MIN, min(I64_MAX, x))


def rnd_uint(rng):
    m = rng.random()
    if m < 0.35:
        return rng.choice(UINT_EDGE)
    if m < 0.6:
        return rng.randint(0, 20)
    if m < 0.8:
        return rng.getrandbits(rng.randint(1, 64))
    return max(0, min(U64_MAX, rng.choice(UINT_EDGE) + rng.randint(-2, 2)))


def rnd_double(rng, finite=False):
    m = rng.random()
    if m < 0.4:
        x = rng.choice(DBL_EDGE)
    elif m < 0.6:
        x = float(rng.randint(-20, 20)) / rng.choice([1, 2, 4, 8])
    elif m < 0.8:
        x = bitsd(rng.getrandbits(64))
    else:
        x = rng.uniform(-1e6, 1e6)
    if finite and (x != x or x in (float('inf'), float('-inf'))):
        return 1.25
    return x


def rnd_string(rng, maxlen=6):
    m = rng.random()
    if m < 0.45:
        return rng.choice(STR_EDGE)
    alphabet = "ab01 é日𝄞'\"\\\n"
    return ''.join(rng.choice(alphabet) for _ in range(rng.randint(0, maxlen)))


def rnd_bytes(rng):
    if rng.random() < 0.5:
        return rng.choice(BYTES_EDGE)
    return bytes(rng.getrandbits(8) for _ in range(rng.randint(0, 5)))


def rnd_key(rng):
    m = rng.random()
    if m < 0.3:
        return I(rng.choice([0, 1, 2, -1, I64_MAX, I64_MIN]))
    if m < 0.5:
        return U(rng.choice([0, 1, 2, U64_MAX]))
    if m < 0.6:
        return B(rng.random() < 0.5)
    return S(rng.choice(["a", "b", "k", "", "1", "true", "é", "size", "x y"]))


def rnd_value(rng, depth=2, hostile=True):
    """Any CEL value (untyped)."""
    m = rng.random()
    if depth > 0 and m < 0.12:
        return L([rnd_value(rng, depth - 1, hostile) for _ in range(rng.randint(0, 3))])
    if depth > 0 and m < 0.24:
        es, seen = [], set()
        for _ in range(rng.randint(0, 3)):
            k = rnd_key(rng)
            if k not in seen:
                seen.add(k)
                es.append((k, rnd_value(rng, depth - 1, hostile)))
        return M(es)
    kinds = ['i', 'u', 'd', 's', 'y', 'b', 'n']
    if hostile:
        kinds += ['dur', 'ts', 'fn']
    k = rng.choice(kinds)
    if k == 'i':
        return I(rnd_int(rng))
    if k == 'u':
        return U(rnd_uint(rng))
    if k == 'd':
        return D(rnd_double(rng))
    if k == 's':
        return S(rnd_string(rng))
    if k == 'y':
        return Y(rnd_bytes(rng))
    if k == 'b':
        return B(rng.random() < 0.5)
    if k == 'n':
        return NULL
    if k == 'dur':
        return DUR(rng.choice(DUR_EDGE + DUR_BEYOND) if rng.random() < 0.7 else rng.randint(I64_MIN, I64_MAX))
    if k == 'ts':
        return TS(*rng.choice(TS_EDGE))
    return rng.choice([('fn', 'size', None), ('fn', 'f', I(1))])


# ---- typed generator (the C03 fragment) ------------------------------------------------------------------

SCALARS = ['int', 'uint', 'double', 'bool', 'string', 'bytes']
KEY_TYPES = ['int', 'uint', 'bool', 'string']
FIELD_NAMES = ["a", "b", "k", "foo", "x1"]
PORTABLE_PATTERNS = ["a", "^a", "b$", "a*", "a+b", "ab|ba", "^[a-z]*$", "[0-9]+", "(ab)+", ".", "^$", "a.c", "o?b"]


class TypedGen:
    def __init__(self, rng, max_depth=5, with_host=False):
        self.rng = rng
        self.max_depth = max_depth
        self.scope = {}          # name -> type (context variables and macro variables)
        self.values = {}         # context variable values
        self.counter = 0
        self.with_host = with_host
        self.map_ranges = True   # may macros range over maps (iteration order unspecified)?

    # -- context ----------------------------------------------------------------------------
    def make_context(self, nvars=5):
        rng = self.rng
        types = ['int', 'uint', 'double', 'bool', 'string', 'bytes', ('list', 'int'), ('list', 'string'),
                 ('map', 'string', 'int'), ('map', 'int', 'string'), ('list', ('list', 'int')),
                 ('map', 'uint', 'bool'), ('list', 'double'), ('map', 'string', ('list', 'int')), ('list', 'uint')]
        names = ["v%d" % i for i in range(nvars)]
        for n in names:
            t = rng.choice(types)
            self.scope[n] = t
            self.values[n] = self.value_of(t, 2)
        return [(n, self.values[n]) for n in names]

    def value_of(self, t, depth=2):
        rng = self.rng
        if t == 'int':
            return I(rnd_int(rng))
        if t == 'uint':
            return U(rnd_uint(rng))
        if t == 'double':
            return D(rnd_double(rng))
        if t == 'bool':
            return B(rng.random() < 0.5)
        if t == 'string':
            return S(rnd_string(rng))
        if t == 'bytes':
            return Y(rnd_bytes(rng))
        if t == 'null':
            return NULL
        if t[0] == 'list':
            return L([self.value_of(t[1], depth - 1) for _ in range(rng.randint(0, 3))])
        if t[0] == 'map':
            es, seen = [], set()
            for _ in range(rng.randint(0, 3)):
                k = self.key_of(t[1])
                if k not in seen:
                    seen.add(k)
                    es.append((k, self.value_of(t[2], depth - 1)))
            return M(es)
        raise ValueError(t)

    def key_of(self, kt):
        rng = self.rng
        if kt == 'int':
            return I(rng.choice([0, 1, 2, 3, -1, 7, 0, 1, 2, I64_MIN, I64_MAX, -2]))
        if kt == 'uint':
            return U(rng.choice([0, 1, 2, 3, 9, 0, 1, 2, U64_MAX, 1 << 63, U64_MAX - 1, I64_MAX]))
        if kt == 'bool':
            return B(rng.random() < 0.5)
        return S(rng.choice(FIELD_NAMES + ["", "é", "x y"]))

    # -- expressions -------------------------------------------------------------------------
    def vars_of(self, t):
        return [n for n, vt in self.scope.items() if vt == t]

    def lit(self, t):
        return ('lit', self.value_of(t, 1))

    def leaf(self, t):
        rng = self.rng
        vs = self.vars_of(t)
        if vs and rng.random() < 0.45:
            return ('id', rng.choice(vs))
        if t in SCALARS or t == 'null':
            if t == 'double':
                v = D(rnd_double(rng))
                f = v[1]
                if f != f:
                    return ('bin', '/', ('lit', D(0.0)), ('lit', D(0.0)))
                if f == float('inf'):
                    return ('bin', '/', ('lit', D(1.0)), ('lit', D(0.0)))
                if f == float('-inf'):
                    return ('bin', '/', ('lit', D(-1.0)), ('lit', D(0.0)))
                return ('lit', v)
            return self.lit(t)
        if t[0] == 'list':
            return ('list', [self.leaf(t[1]) for _ in range(rng.randint(0, 2))])
        if t[0] == 'map':
            es, seen = [], set()
            for _ in range(rng.randint(0, 2)):
                k = self.key_of(t[1])
                if k not in seen:
                    seen.add(k)
                    es.append((('lit', k), self.leaf(t[2])))
            return ('map', es)
        raise ValueError(t)

    def fresh_var(self):
        self.counter += 1
        return self.rng.choice(["x", "y", "z", "e%d" % self.counter])

    def gen(self, t, d=None):
        rng = self.rng
        if d is None:
            d = self.max_depth
        if d <= 0 or rng.random() < 0.12:
            return self.leaf(t)
        g = getattr(self, 'gen_' + (t if isinstance(t, str) else t[0]))
        e = g(t, d - 1)
        if self.with_host and rng.random() < 0.08:
            self.counter += 1
            e = ('call', 't', [('lit', I(1000 + self.counter)), e])
        return e

    def any_scalar(self):
        return self.rng.choice(['int', 'uint', 'double', 'bool', 'string'])

    def any_type(self, d=1):
        rng = self.rng
        m = rng.random()
        if d > 0 and m < 0.2:
            return ('list', self.any_type(d - 1))
        if d > 0 and m < 0.3:
            return ('map', rng.choice(KEY_TYPES), self.any_type(d - 1))
        return rng.choice(SCALARS)

    def cond(self, t, d):
        return ('cond', self.gen('bool', d), self.gen(t, d), self.gen(t, d))

    def index_into(self, t, d):
        rng = self.rng
        if rng.random() < 0.5:
            return ('idx', self.gen(('list', t), d), self.gen('int', min(d, 1)) if rng.random() < 0.3 else ('lit', I(rng.choice([0, 1, 2, -1, 5]))))
        kt = rng.choice(KEY_TYPES)
        m = self.gen(('map', kt, t), d)
        if kt == 'string' and rng.random() < 0.4:
            return ('sel', m, rng.choice(FIELD_NAMES))
        if kt in ('int', 'uint') and rng.random() < 0.35:
            # query with the other integer kind: numerically equal int / uint keys are one key
            return ('idx', m, ('lit', self.key_of('uint' if kt == 'int' else 'int')))
        return ('idx', m, ('lit', self.key_of(kt)))

    # index / select can yield null or raise, which would break typing of the parent: the typed
    # generator only uses them directly under ==, != or as a whole program
    def gen_int(self, t, d):
        rng = self.rng
        m = rng.random()
        if m < 0.42:
            return ('bin', rng.choice(['+', '-', '*', '/', '%']), self.gen('int', d), self.gen('int', d))
        if m < 0.5:
            return ('un', '-', self.gen('int', d))
        if m < 0.58:
            return self.cond('int', d)
        if m < 0.68:
            st = rng.choice(['string', 'bytes', ('list', self.any_scalar()), ('map', rng.choice(KEY_TYPES), 'int')])
            x = self.gen(st, d)
            return ('mcall', x, 'size', []) if rng.random() < 0.5 else ('call', 'size', [x])
        if m < 0.8:
            src = rng.choice(['uint', 'double', 'string', 'int'])
            x = ('lit', S(rng.choice(["0", "1", "-1", "42", "+7", "9223372036854775807", "-9223372036854775808",
                                       "9223372036854775808", "abc", "", "1.5", " 1"]))) if src == 'string' else self.gen(src, d)
            return ('call', 'int', [x]) if rng.random() < 0.6 else ('mcall', x, 'int', [])
        if m < 0.9:
            n = rng.randint(1, 3)
            return ('call', rng.choice(['min', 'max']), [self.gen('int', d) for _ in range(n)])
        return ('call', rng.choice(['min', 'max']), [('list', [self.gen('int', d) for _ in range(rng.randint(1, 3))])])

    def gen_uint(self, t, d):
        rng = self.rng
        m = rng.random()
        if m < 0.5:
            return ('bin', rng.choice(['+', '-', '*', '/', '%']), self.gen('uint', d), self.gen('uint', d))
        if m < 0.6:
            return self.cond('uint', d)
        if m < 0.85:
            src = rng.choice(['int', 'double', 'string', 'uint'])
            x = ('lit', S(rng.choice(["0", "1", "42", "18446744073709551615", "18446744073709551616", "-1", "x", ""]))) if src == 'string' else self.gen(src, d)
            return ('call', 'uint', [x]) if rng.random() < 0.6 else ('mcall', x, 'uint', [])
        return ('call', rng.choice(['min', 'max']), [self.gen('uint', d) for _ in range(rng.randint(1, 3))])

    def gen_double(self, t, d):
        rng = self.rng
        m = rng.random()
        if m < 0.5:
            return ('bin', rng.choice(['+', '-', '*', '/']), self.gen('double', d), self.gen('double', d))
        if m < 0.6:
            return ('un', '-', self.gen('double', d))
        if m < 0.7:
            return self.cond('double', d)
        src = rng.choice(['int', 'uint', 'string', 'double'])
        x = ('lit', S(rng.choice(["0", "1.5", "-2.25", "1e3", "1E-2", ".5", "5.", "NaN", "inf", "-inf", "+1"]))) if src == 'string' else self.gen(src, d)
        return ('call', 'double', [x]) if rng.random() < 0.6 else ('mcall', x, 'double', [])

    def gen_bool(self, t, d):
        rng = self.rng
        m = rng.random()
        if m < 0.12:
            return ('bin', '&&', self.gen('bool', d), self.gen('bool', d))
        if m < 0.24:
            return ('bin', '||', self.gen('bool', d), self.gen('bool', d))
        if m < 0.30:
            return ('un', '!', self.gen('bool', d))
        if m < 0.36:
            return self.cond('bool', d)
        if m < 0.52:
            ct = rng.choice(['int', 'uint', 'double', 'string', 'bool'])
            if ct in ('int', 'uint', 'double') and rng.random() < 0.2:
                # numbers of different kinds compare by the values they denote
                ct2 = rng.choice([t for t in ('int', 'uint', 'double') if t != ct])
                op = rng.choice(['<', '<=', '>', '>=', '==', '!='])
                a, b = (self.leaf(ct), self.leaf(ct2)) if rng.random() < 0.5 else (self.gen(ct, d), self.gen(ct2, d))
                return ('bin', op, a, b)
            return ('bin', rng.choice(['<', '<=', '>', '>=']), self.gen(ct, d), self.gen(ct, d))
        if m < 0.66:
            et = self.any_type(1)
            a = self.gen(et, d)
            b = self.gen(et, d)
            if rng.random() < 0.25:
                # an index / select / null on one side: only equality is defined on the result
                a = self.index_into(et, d)
            return ('bin', rng.choice(['==', '!=']), a, b)
        if m < 0.72:
            et = self.any_scalar()
            return ('bin', 'in', self.gen(et, d), self.gen(('list', et), d))
        if m < 0.77:
            kt = rng.choice(KEY_TYPES)
            qt = kt
            if kt in ('int', 'uint') and rng.random() < 0.35:
                qt = 'uint' if kt == 'int' else 'int'
                return ('bin', 'in', ('lit', self.key_of(qt)), self.gen(('map', kt, self.any_scalar()), d))
            return ('bin', 'in', self.gen(kt, min(d, 1)), self.gen(('map', kt, self.any_scalar()), d))
        if m < 0.81:
            return ('has', self.gen(('map', 'string', self.any_scalar()), d), rng.choice(FIELD_NAMES))
        if m < 0.89:
            which = rng.choice(['contains', 'startsWith', 'endsWith', 'matches', 'lcontains', 'mcontains'])
            if which == 'lcontains':
                et = self.any_scalar()
                return ('mcall', self.gen(('list', et), d), 'contains', [self.gen(et, d)])
            if which == 'mcontains':
                kt = rng.choice(KEY_TYPES)
                return ('mcall', self.gen(('map', kt, 'int'), d), 'contains', [self.gen(kt, min(d, 1))])
            if which == 'matches':
                s = ('lit', S(rng.choice(["", "a", "ab", "abc", "aab", "ba", "123", "a1c", "foobar"])))
                p = ('lit', S(rng.choice(PORTABLE_PATTERNS)))
                return ('mcall', s, 'matches', [p]) if rng.random() < 0.6 else ('call', 'matches', [s, p])
            a, b = self.gen('string', d), self.gen('string', min(d, 1))
            return ('mcall', a, which, [b]) if rng.random() < 0.6 else ('call', which, [a, b])
        # macros
        kind = rng.choice(['all', 'exists', 'exists_one', 'existsOne'])
        return self.macro(kind, 'bool', d)

    def macro(self, kind, result_elem_t, d):
        rng = self.rng
        if rng.random() < 0.75 or not self.map_ranges:
            et = self.any_scalar() if rng.random() < 0.8 else ('list', 'int')
            recv = self.gen(('list', et), d)
        else:
            et = rng.choice(KEY_TYPES)
            recv = self.gen(('map', et, self.any_scalar()), d)
        var = self.fresh_var()
        saved = self.scope.get(var, None)
        self.scope[var] = et
        try:
            if kind in ('all', 'exists', 'exists_one', 'existsOne', 'filter'):
                args = [self.gen('bool', d)]
            elif kind == 'map':
                if rng.random() < 0.35:
                    args = [self.gen('bool', d), self.gen(result_elem_t, d)]
                else:
                    args = [self.gen(result_elem_t, d)]
        finally:
            if saved is None:
                del self.scope[var]
            else:
                self.scope[var] = saved
        if kind == 'filter':
            return ('macro', kind, recv, var, args), et
        return ('macro', kind, recv, var, args)

    def gen_string(self, t, d):
        rng = self.rng
        m = rng.random()
        if m < 0.45:
            return ('bin', '+', self.gen('string', d), self.gen('string', d))
        if m < 0.55:
            return self.cond('string', d)
        if m < 0.9:
            src = rng.choice(['int', 'uint', 'string', 'bytes'])
            if src == 'bytes':
                x = ('call', 'bytes', [self.gen('string', d)])
            else:
                x = self.gen(src, d)
            return ('call', 'string', [x]) if rng.random() < 0.6 else ('mcall', x, 'string', [])
        return ('call', rng.choice(['min', 'max']), [self.gen('string', d) for _ in range(rng.randint(1, 3))])

    def gen_bytes(self, t, d):
        rng = self.rng
        if rng.random() < 0.6:
            return ('call', 'bytes', [self.gen('string', d)])
        return self.cond('bytes', d)

    def gen_null(self, t, d):
        return ('lit', NULL)

    def gen_list(self, t, d):
        rng = self.rng
        et = t[1]
        m = rng.random()
        if m < 0.3:
            return ('list', [self.gen(et, d) for _ in range(rng.randint(0, 3))])
        if m < 0.5:
            return ('bin', '+', self.gen(t, d), self.gen(t, d))
        if m < 0.58:
            return self.cond(t, d)
        if m < 0.8:
            return self.macro('map', et, d)
        # filter keeps the element type of its range: build it from a list of the wanted type
        var = self.fresh_var()
        recv = self.gen(('list', et), d)
        saved = self.scope.get(var, None)
        self.scope[var] = et
        try:
            pred = self.gen('bool', d)
        finally:
            if saved is None:
                del self.scope[var]
            else:
                self.scope[var] = saved
        return ('macro', 'filter', recv, var, [pred])

    def gen_map(self, t, d):
        rng = self.rng
        if rng.random() < 0.2:
            return self.cond(t, d)
        es, seen = [], set()
        for _ in range(rng.randint(0, 3)):
            k = self.key_of(t[1])
            if k not in seen:
                seen.add(k)
                es.append((('lit', k) if rng.random() < 0.8 else self.cond_key(k, d), self.gen(t[2], d)))
        return ('map', es)

    def cond_key(self, k, d):
        # a computed key that still denotes k
        return ('cond', ('lit', B(True)), ('lit', k), ('lit', k))

    def program(self):
        """A whole well-typed program of a random result type."""
        rng = self.rng
        m = rng.random()
        if m < 0.1:
            # index / select at top level (may yield null or no_such_key)
            return self.index_into(self.any_type(1), self.max_depth - 1)
        t = self.any_type(1) if m < 0.5 else rng.choice(['int', 'bool', 'bool', 'string', 'double', 'uint'])
        return self.gen(t, self.max_depth)


# ---- untyped generator ---------------------------------------------------------------------------------

IDENTS = ["a", "b", "c", "x", "y", "m", "l", "s", "foo", "v0", "v1", "v2", "v3", "size", "_u", "A1"]
FUNCS = ["size", "contains", "startsWith", "endsWith", "matches", "int", "uint", "double", "string", "bytes",
         "min", "max", "duration", "timestamp", "getFullYear", "getMonth", "getDayOfYear", "getDayOfMonth",
         "getDate", "getDayOfWeek", "getHours", "getMinutes", "getSeconds", "getMilliseconds"]
HOST_FUNCS = ["t", "fail", "va", "va0", "h0", "h1_i", "h1_u", "h1_d", "h1_s", "h1_y", "h1_b", "h1_l", "h1_D", "h1_T",
              "h1_v", "h2_is", "h2_vv", "h3_isb", "h4_iudb", "h5_iiiii", "h9_iiiiiiiii", "c0", "c1_i", "c2_sv",
              "m0_v", "m0_s", "m1_si", "m1_vv", "m3_vivb", "o0_i", "o0_s", "ma", "id1", "id2", "vid", "ex1", "ex0",
              "nosuchfn"]
MACROS = ["all", "exists", "exists_one", "existsOne", "map", "filter"]


class UntypedGen:
    def __init__(self, rng, idents=None, funcs=None, lit_values=None, struct_ok=True):
        self.rng = rng
        self.idents = idents or IDENTS
        self.funcs = funcs or (FUNCS + HOST_FUNCS)
        self.struct_ok = struct_ok
        self.lit_values = lit_values

    def lit(self):
        rng = self.rng
        if self.lit_values is not None and rng.random() < 0.7:
            return ('lit', rng.choice(self.lit_values))
        k = rng.choice('iiuudssybn')
        if k == 'i':
            return ('lit', I(rnd_int(rng)))
        if k == 'u':
            return ('lit', U(rnd_uint(rng)))
        if k == 'd':
            return ('lit', D(rnd_double(rng, finite=True)))
        if k == 's':
            return ('lit', S(rnd_string(rng)))
        if k == 'y':
            return ('lit', Y(rnd_bytes(rng)))
        if k == 'b':
            return ('lit', B(rng.random() < 0.5))
        return ('lit', NULL)

    def gen(self, d):
        rng = self.rng
        if d <= 0 or rng.random() < 0.15:
            return self.lit() if rng.random() < 0.55 else ('id', rng.choice(self.idents))
        m = rng.random()
        d -= 1
        if m < 0.22:
            return ('bin', rng.choice(list('+-*/%') + ['==', '!=', '<', '<=', '>', '>=', 'in', '&&', '||']),
                    self.gen(d), self.gen(d))
        if m < 0.28:
            return ('un', rng.choice('!-'), self.gen(d))
        if m < 0.31:
            return ('run', rng.choice('!-'), rng.randint(2, 4), self.gen(d))
        if m < 0.38:
            return ('cond', self.gen(d), self.gen(d), self.gen(d))
        if m < 0.45:
            return ('idx', self.gen(d), self.gen(d))
        if m < 0.51:
            return ('sel', self.gen(d), rng.choice(["a", "b", "k", "size", "x1"]))
        if m < 0.54:
            return ('has', self.gen(d), rng.choice(["a", "b", "k"]))
        if m < 0.64:
            return ('call', rng.choice(self.funcs), [self.gen(d) for _ in range(rng.choice([0, 1, 1, 2, 2, 3]))])
        if m < 0.74:
            return ('mcall', self.gen(d), rng.choice(self.funcs), [self.gen(d) for _ in range(rng.choice([0, 0, 1, 1, 2]))])
        if m < 0.81:
            return ('list', [self.gen(d) for _ in range(rng.randint(0, 3))])
        if m < 0.87:
            return ('map', [(self.gen(d), self.gen(d)) for _ in range(rng.randint(0, 3))])
        if m < 0.89 and self.struct_ok:
            return ('struct', rng.choice(["T", "a.B", "Msg"]), [(rng.choice(["f", "g"]), self.gen(d)) for _ in range(rng.randint(0, 2))])
        kind = rng.choice(MACROS)
        var = rng.choice(["x", "y", "z", "a"])
        if kind == 'map' and rng.random() < 0.4:
            args = [self.gen(d), self.gen(d)]
        else:
            args = [self.gen(d)]
        return ('macro', kind, self.gen(d), var, args)
