"""Expression model, two renderers (fully / minimally parenthesised, written from CEL.g4) and the
expected public AST (the JSON shape of harness/src/astdump.rs).

Nodes (tuples):
  ('lit', value)               ('id', name)                ('sel', e, field)
  ('has', e, field)            ('idx', e, i)               ('call', name, [args])
  ('mcall', recv, name, [args])('list', [e])               ('map', [(k, v)])
  ('struct', name, [(f, e)])   ('un', op, e)  op in ! -    ('run', op, k, e)  k prefix operators
  ('bin', op, a, b)            ('cond', c, a, b)
  ('macro', kind, recv, var, [args])  kind in all exists exists_one existsOne map filter
"""
from .values import dbits, I64_MIN

BINOPS = {
    '||': (2, '_||_'), '&&': (3, '_&&_'),
    '<': (4, '_<_'), '<=': (4, '_<=_'), '>': (4, '_>_'), '>=': (4, '_>=_'),
    '==': (4, '_==_'), '!=': (4, '_!=_'), 'in': (4, '@in'),
    '+': (5, '_+_'), '-': (5, '_-_'),
    '*': (6, '_*_'), '/': (6, '_/_'), '%': (6, '_%_'),
}
P_COND, P_OR, P_AND, P_REL, P_ADD, P_MUL, P_UNARY, P_MEMBER = 1, 2, 3, 4, 5, 6, 7, 8


# ---- literals -----------------------------------------------------------------------------------

def render_double(f):
    """Shortest round-trip decimal that the NUM_FLOAT token accepts (needs '.' or exponent)."""
    if f != f or f in (float('inf'), float('-inf')):
        raise ValueError("no literal for non-finite double")
    r = repr(f)
    neg = r.startswith('-')
    if neg:
        r = r[1:]
    if 'e' in r or 'E' in r:
        mant, exp = r.lower().split('e')
        if '.' not in mant:
            mant += '.0'
        r = mant + 'e' + exp
    elif '.' not in r:
        r += '.0'
    return ('-' if neg else '') + r


SIMPLE_ESC = {'\a': '\\a', '\b': '\\b', '\f': '\\f', '\n': '\\n', '\r': '\\r', '\t': '\\t',
              '\v': '\\v', '\\': '\\\\'}


def render_string(s, quote='"'):
    """A conservative spelling every CEL implementation reads the same way: printable ASCII
    verbatim, everything else through \\uXXXX / \\UXXXXXXXX or simple escapes."""
    out = [quote]
    for ch in s:
        o = ord(ch)
        if ch == quote:
            out.append('\\' + ch)
        elif ch in SIMPLE_ESC:
            out.append(SIMPLE_ESC[ch])
        elif 0x20 <= o < 0x7f:
            out.append(ch)
        elif o <= 0xffff:
            out.append('\\u%04x' % o)
        else:
            out.append('\\U%08x' % o)
    out.append(quote)
    return ''.join(out)


def render_bytes(b):
    out = ['b"']
    for o in b:
        if 0x20 <= o < 0x7f and o not in (0x22, 0x5c):
            out.append(chr(o))
        else:
            out.append('\\x%02x' % o)
    out.append('"')
    return ''.join(out)


def render_literal(v):
    k = v[0]
    if k == 'i':
        return str(v[1])
    if k == 'u':
        return str(v[1]) + 'u'
    if k == 'd':
        return render_double(v[1])
    if k == 's':
        return render_string(v[1])
    if k == 'y':
        return render_bytes(v[1])
    if k == 'b':
        return 'true' if v[1] else 'false'
    if k == 'n':
        return 'null'
    raise ValueError("no literal form for %r" % (v,))


def is_neg_num_lit(e):
    return e[0] == 'lit' and e[1][0] in ('i', 'd') and (e[1][1] < 0 or (e[1][0] == 'd' and str(e[1][1]).startswith('-')))


def is_unsigned_signable_lit(e):
    """An int or double literal written without sign: a '-' directly in front folds into it."""
    return e[0] == 'lit' and e[1][0] in ('i', 'd') and not is_neg_num_lit(e)


# ---- precedence -----------------------------------------------------------------------------------

def prec(e):
    k = e[0]
    if k == 'cond':
        return P_COND
    if k == 'bin':
        return BINOPS[e[1]][0]
    if k == 'un':
        return P_UNARY
    if k == 'run':
        return P_UNARY if e[2] > 0 else prec(e[3])
    return P_MEMBER


def leftmost_unsigned_number(e):
    """Does the minimal rendering of e start with an unsigned int/double literal token?"""
    k = e[0]
    if k == 'lit':
        return is_unsigned_signable_lit(e)
    if k in ('sel', 'idx'):
        return prec(e[1]) >= P_MEMBER and leftmost_unsigned_number(e[1])
    if k == 'mcall':
        return prec(e[1]) >= P_MEMBER and leftmost_unsigned_number(e[1])
    if k == 'macro':
        return prec(e[2]) >= P_MEMBER and leftmost_unsigned_number(e[2])
    return False


# ---- renderers ------------------------------------------------------------------------------------

class Renderer:
    def __init__(self, full=False, rng=None, noise=0.0):
        self.full = full
        self.rng = rng
        self.noise = noise

    def sp(self):
        if self.rng is not None and self.noise and self.rng.random() < self.noise:
            return self.rng.choice([' ', '  ', '\t', '\n', ' \n '])
        return ''

    def wrap(self, s):
        return '(' + self.sp() + s + self.sp() + ')'

    def sub(self, e, minp, right_assoc_ok=False):
        """Render e as an operand that must have precedence >= minp."""
        s = self.r(e)
        if self.full:
            return self.wrap(s)
        need = prec(e) < minp
        if not need and self.rng is not None and self.noise and self.rng.random() < self.noise / 2:
            need = True
        return self.wrap(s) if need else s

    def args(self, es):
        return (',' + (' ' if not self.full else '')).join(self.sub(a, P_COND) for a in es)

    def member_operand(self, e):
        # a negative numeric literal is a primary ('literal: sign=MINUS? NUM_INT'), so `-5.f()`
        # would re-associate; keep it explicit
        if not self.full and is_neg_num_lit(e):
            return self.wrap(self.r(e))
        return self.sub(e, P_MEMBER)

    def r(self, e):
        k = e[0]
        if k == 'lit':
            return render_literal(e[1])
        if k == 'id':
            return e[1]
        if k == 'sel':
            return self.member_operand(e[1]) + self.sp() + '.' + self.sp() + e[2]
        if k == 'has':
            return 'has(' + self.member_operand(e[1]) + '.' + e[2] + ')'
        if k == 'idx':
            return self.member_operand(e[1]) + '[' + self.sub(e[2], P_COND) + ']'
        if k == 'call':
            return e[1] + '(' + self.args(e[2]) + ')'
        if k == 'mcall':
            return self.member_operand(e[1]) + '.' + e[2] + '(' + self.args(e[3]) + ')'
        if k == 'list':
            return '[' + self.args(e[1]) + ']'
        if k == 'map':
            return '{' + ', '.join(self.sub(a, P_COND) + ': ' + self.sub(b, P_COND) for a, b in e[1]) + '}'
        if k == 'struct':
            return e[1] + '{' + ', '.join(f + ': ' + self.sub(v, P_COND) for f, v in e[2]) + '}'
        if k == 'un':
            op, x = e[1], e[2]
            if self.full:
                return op + self.wrap(self.r(x))
            s = self.r(x)
            # operand of a prefix operator is a `member`; a '-' in front of an unsigned number
            # would fold into the literal, a nested prefix operator would extend the run
            if prec(x) < P_MEMBER or (op == '-' and leftmost_unsigned_number(x)) or is_neg_num_lit(x):
                s = self.wrap(s)
            return op + s
        if k == 'run':
            op, n, x = e[1], e[2], e[3]
            s = self.r(x)
            if n == 0:
                return s
            if self.full or prec(x) < P_MEMBER or is_neg_num_lit(x) or (op == '-' and leftmost_unsigned_number(x) and x[0] != 'lit'):
                s = self.wrap(s)
            return op * n + s
        if k == 'bin':
            op, a, b = e[1], e[2], e[3]
            p = BINOPS[op][0]
            if op in ('||', '&&'):
                # flat chains: operands one level tighter on both sides
                la, rb = self.sub(a, p if (a[0] == 'bin' and a[1] == op) else p + 1), self.sub(b, p + 1)
            else:
                # left-associative
                la, rb = self.sub(a, p), self.sub(b, p + 1)
            mid = ' ' + op + ' '
            return la + mid + rb
        if k == 'cond':
            c, a, b = e[1], e[2], e[3]
            return self.sub(c, P_OR) + ' ? ' + self.sub(a, P_OR) + ' : ' + self.sub(b, P_COND)
        if k == 'macro':
            kind, recv, var, margs = e[1], e[2], e[3], e[4]
            return self.member_operand(recv) + '.' + kind + '(' + var + ', ' + self.args(margs) + ')'
        raise ValueError(e)


def render_min(e, rng=None, noise=0.0):
    return Renderer(False, rng, noise).r(e)


def render_full(e):
    return Renderer(True).r(e)


# ---- expected public AST ----------------------------------------------------------------------------

def lit_json(v):
    k = v[0]
    if k == 'd':
        return {"d": dbits(v[1])}
    if k == 'y':
        return {"y": v[1].hex()}
    if k == 'n':
        return {"n": 0}
    return {k: v[1]}


def call(name, target, args):
    return {"call": [name, target, args]}


def comp(rng, var, init, cond, step, result):
    return {"comp": {"range": rng, "var": var, "var2": None, "accu": "@result", "init": init,
                     "cond": cond, "step": step, "result": result}}


ACC = {"id": "@result"}


def expand_macro(kind, recv, var, args):
    """The expansion shapes pinned by the repository's own parser test (antlr/src/parser.rs)."""
    if kind == 'all':
        return comp(recv, var, {"lit": {"b": True}},
                    call("@not_strictly_false", None, [ACC]),
                    call("_&&_", None, [ACC, args[0]]), ACC)
    if kind == 'exists':
        return comp(recv, var, {"lit": {"b": False}},
                    call("@not_strictly_false", None, [call("!_", None, [ACC])]),
                    call("_||_", None, [ACC, args[0]]), ACC)
    if kind in ('exists_one', 'existsOne'):
        return comp(recv, var, {"lit": {"i": 0}}, {"lit": {"b": True}},
                    call("_?_:_", None, [args[0], call("_+_", None, [ACC, {"lit": {"i": 1}}]), ACC]),
                    call("_==_", None, [ACC, {"lit": {"i": 1}}]))
    if kind == 'map':
        step = call("_+_", None, [ACC, {"list": [args[-1]]}])
        if len(args) == 2:
            step = call("_?_:_", None, [args[0], step, ACC])
        return comp(recv, var, {"list": []}, {"lit": {"b": True}}, step, ACC)
    if kind == 'filter':
        step = call("_?_:_", None, [args[0], call("_+_", None, [ACC, {"list": [{"id": var}]}]), ACC])
        return comp(recv, var, {"list": []}, {"lit": {"b": True}}, step, ACC)
    raise ValueError(kind)


def neg_lit(v):
    if v[0] == 'i':
        return ('i', -v[1])
    return ('d', -v[1])


def expected_ast(e):
    k = e[0]
    if k == 'lit':
        return {"lit": lit_json(e[1])}
    if k == 'id':
        return {"id": e[1]}
    if k == 'sel':
        return {"sel": [expected_ast(e[1]), e[2], False]}
    if k == 'has':
        return {"sel": [expected_ast(e[1]), e[2], True]}
    if k == 'idx':
        return call("_[_]", None, [expected_ast(e[1]), expected_ast(e[2])])
    if k == 'call':
        return call(e[1], None, [expected_ast(a) for a in e[2]])
    if k == 'mcall':
        return call(e[2], expected_ast(e[1]), [expected_ast(a) for a in e[3]])
    if k == 'list':
        return {"list": [expected_ast(a) for a in e[1]]}
    if k == 'map':
        return {"map": [[expected_ast(a), expected_ast(b), False] for a, b in e[1]]}
    if k == 'struct':
        return {"struct": [e[1], [[f, expected_ast(v), False] for f, v in e[2]]]}
    if k == 'un':
        return call("!_" if e[1] == '!' else "-_", None, [expected_ast(e[2])])
    if k == 'run':
        op, n, x = e[1], e[2], e[3]
        if op == '-' and x[0] == 'lit' and is_unsigned_signable_lit(x) and n >= 1:
            # grammar: `literal: sign=MINUS? NUM_INT`; a single '-' is the literal's sign, in a
            # longer run all '-' are operators of the run
            if n == 1:
                return {"lit": lit_json(neg_lit(x[1]))}
        inner = expected_ast(x)
        if n % 2 == 0:
            return inner
        return call("!_" if op == '!' else "-_", None, [inner])
    if k == 'bin':
        return call(BINOPS[e[1]][1], None, [expected_ast(e[2]), expected_ast(e[3])])
    if k == 'cond':
        return call("_?_:_", None, [expected_ast(e[1]), expected_ast(e[2]), expected_ast(e[3])])
    if k == 'macro':
        return expand_macro(e[1], expected_ast(e[2]), e[3], [expected_ast(a) for a in e[4]])
    raise ValueError(e)


def flatten_logic(ast):
    """Normal form for comparison: `&&` / `||` chains are compared by operand sequence (the
    parser builds a balanced tree, the statement only promises source order)."""
    if isinstance(ast, list):
        return [flatten_logic(a) for a in ast]
    if not isinstance(ast, dict):
        return ast
    if "call" in ast:
        name, target, args = ast["call"]
        target = flatten_logic(target)
        args = [flatten_logic(a) for a in args]
        if name in ("_&&_", "_||_") and target is None and len(args) == 2:
            ops = []
            for a in args:
                if isinstance(a, dict) and "chain" in a and a["chain"][0] == name:
                    ops.extend(a["chain"][1])
                else:
                    ops.append(a)
            return {"chain": [name, ops]}
        return {"call": [name, target, args]}
    return {k: flatten_logic(v) for k, v in ast.items()}


def count_ops(e):
    """Number of operator / call / macro nodes (non-triviality measure)."""
    k = e[0]
    if k in ('lit', 'id'):
        return 0
    if k in ('sel', 'has'):
        return 1 + count_ops(e[1])
    if k == 'idx':
        return 1 + count_ops(e[1]) + count_ops(e[2])
    if k == 'call':
        return 1 + sum(count_ops(a) for a in e[2])
    if k == 'mcall':
        return 1 + count_ops(e[1]) + sum(count_ops(a) for a in e[3])
    if k == 'list':
        return sum(count_ops(a) for a in e[1])
    if k == 'map':
        return sum(count_ops(a) + count_ops(b) for a, b in e[1])
    if k == 'struct':
        return 1 + sum(count_ops(v) for _, v in e[2])
    if k == 'un':
        return 1 + count_ops(e[2])
    if k == 'run':
        return e[2] + count_ops(e[3])
    if k == 'bin':
        return 1 + count_ops(e[2]) + count_ops(e[3])
    if k == 'cond':
        return 1 + count_ops(e[1]) + count_ops(e[2]) + count_ops(e[3])
    if k == 'macro':
        return 1 + count_ops(e[2]) + sum(count_ops(a) for a in e[4])
    return 0


def node_depth(e):
    k = e[0]
    if k in ('lit', 'id'):
        return 0
    kids = []
    if k in ('sel', 'has'):
        kids = [e[1]]
    elif k == 'idx':
        kids = [e[1], e[2]]
    elif k == 'call':
        kids = e[2]
    elif k == 'mcall':
        kids = [e[1]] + list(e[3])
    elif k == 'list':
        kids = e[1]
    elif k == 'map':
        kids = [x for p in e[1] for x in p]
    elif k == 'struct':
        kids = [v for _, v in e[2]]
    elif k == 'un':
        kids = [e[2]]
    elif k == 'run':
        kids = [e[3]]
    elif k == 'bin':
        kids = [e[2], e[3]]
    elif k == 'cond':
        kids = [e[1], e[2], e[3]]
    elif k == 'macro':
        kids = [e[2]] + list(e[4])
    return 1 + max([node_depth(c) for c in kids] or [0])
